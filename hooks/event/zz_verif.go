//go:build verif

package event

import "github.com/emitter-io/emitter/internal/event/crdt"

// Verif type tags of the three replicated subsets.
const (
	VerifTypeSub  = typeSub
	VerifTypeBan  = typeBan
	VerifTypeConn = typeConn
)

// VerifSubset returns the underlying LWW set of one event type.
func (st *State) VerifSubset(typ uint8) crdt.Map { return st.subsets[typ] }

// VerifDurable tells whether the state was created durable.
func (st *State) VerifDurable() bool { return st.durable }
