//go:build verif

package websocket

import "net"

// VerifFrameSource is the connection contract the transport is built on.
type VerifFrameSource = websocketConn

// VerifNewTransport builds the transport over a supplied frame source.
func VerifNewTransport(ws VerifFrameSource) net.Conn { return newConn(ws) }
