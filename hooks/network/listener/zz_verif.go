//go:build verif

package listener

import "net"

// VerifNewConn wraps a connection with the sniffing / write-queueing connection.
func VerifNewConn(c net.Conn, writeRate int) *Conn { return newConn(c, writeRate) }

// VerifSniff runs the matchers the way Listener.serve does; returns the index of the first match or -1.
func (m *Conn) VerifSniff(matchers ...Matcher) int {
	for i, processor := range matchers {
		if processor(m.startSniffing()) {
			m.doneSniffing()
			return i
		}
	}
	return -1
}
