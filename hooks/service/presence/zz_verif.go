//go:build verif

package presence

// VerifQueueLen returns how many notifications wait in the presence queue, and its capacity.
func (s *Service) VerifQueueLen() (int, int) { return len(s.queue), cap(s.queue) }
