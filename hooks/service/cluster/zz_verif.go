//go:build verif

package cluster

import (
	"sync/atomic"

	"github.com/emitter-io/emitter/internal/event"
	"github.com/weaveworks/mesh"
)

func (s *Swarm) VerifSetGossip(g mesh.Gossip)        { s.gossip = g }
func (s *Swarm) VerifTouch(name mesh.PeerName)       { s.members.Touch(name) }
func (s *Swarm) VerifState() *event.State            { return s.state }
func (s *Swarm) VerifPeerOffline(name mesh.PeerName) { s.onPeerOffline(name) }
func (s *Swarm) VerifName() mesh.PeerName            { return s.name }

// VerifNewPeer creates a peer bound to the given sender (background flush ticker running, as in production).
func VerifNewPeer(sender mesh.Gossip, name mesh.PeerName) *Peer {
	s := &Swarm{gossip: sender}
	return s.newPeer(name)
}

// VerifFlush runs one flush of the send queue.
func (p *Peer) VerifFlush() { p.processSendQueue() }

// VerifSetActivity sets the last-activity time of the peer (seconds).
func (p *Peer) VerifSetActivity(t int64) { atomic.StoreInt64(&p.activity, t) }
