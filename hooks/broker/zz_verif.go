//go:build verif

package broker

import (
	"github.com/emitter-io/emitter/internal/provider/contract"
	"github.com/emitter-io/emitter/internal/provider/storage"
	"net/http"
	"net"

	"github.com/emitter-io/emitter/internal/message"
	"github.com/emitter-io/emitter/internal/service/cluster"
	"github.com/emitter-io/emitter/internal/service/keygen"
	"github.com/emitter-io/emitter/internal/service/presence"
	"github.com/emitter-io/emitter/internal/service/survey"
)

func (s *Service) VerifAttach(c net.Conn)          { s.onAcceptConn(c) }
func (s *Service) VerifTrie() *message.Trie        { return s.subscriptions }
func (s *Service) VerifSwarm() *cluster.Swarm      { return s.cluster }
func (s *Service) VerifKeygen() *keygen.Service    { return s.keygen }

func (s *Service) VerifConnections() int64 { return s.connections }

func (s *Service) VerifHTTPHandler() http.Handler { return s.http.Handler }

func (s *Service) VerifSetContracts(p contract.Provider) { s.contracts = p }

func (s *Service) VerifStorage() storage.Storage { return s.storage }

func (s *Service) VerifPresence() *presence.Service { return s.presence }
func (s *Service) VerifSurveyor() *survey.Surveyor  { return s.surveyor }
