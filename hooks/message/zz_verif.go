//go:build verif

package message

// VerifEntry is one stored (ssid, subscriber) pair.
type VerifEntry struct {
	Ssid Ssid
	ID   string
}

// VerifDump returns the number of nodes (root included) and every stored pair.
func (t *Trie) VerifDump() (nodes int, entries []VerifEntry, emptyLeaves int) {
	t.RLock()
	defer t.RUnlock()
	var walk func(n *node, path Ssid)
	walk = func(n *node, path Ssid) {
		nodes++
		if n.parent != nil && len(n.subs) == 0 && len(n.children) == 0 {
			emptyLeaves++
		}
		for _, s := range n.subs {
			entries = append(entries, VerifEntry{Ssid: append(Ssid(nil), path...), ID: s.ID()})
		}
		for w, c := range n.children {
			walk(c, append(append(Ssid(nil), path...), w))
		}
	}
	walk(t.root, nil)
	return
}
