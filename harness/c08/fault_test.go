//go:build verif

package c08

// Write faults: the victim's connection is a scripted socket. Its whole request stream is readable (the client sent
// everything before it went away - bytes a TCP stack keeps delivering), but the broker's k-th write to it fails
// (and every later one: the peer is gone; or only that one: a transient failure such as an expired deadline).
// Every k of the fault-free run is enumerated. However the broker reacts, once the connection has ended nothing of
// it may be left, its will fires exactly once, watchers are told, and - if the connection survives a transient
// failure - it keeps receiving what its acknowledged subscriptions match.

import (
	"encoding/json"
	"fmt"
	"testing"

	"github.com/emitter-io/emitter/internal/verif/vkit"
)

// FaultRun is one execution.
type FaultRun struct {
	Session Session `json:"session"`
	Chunk   int     `json:"chunk"`
	Mode    string  `json:"mode"` // none, from, once
	K       int     `json:"k"`
}

func (e *env) faultRun(s Session, stream []byte, chunk int, failFrom, failOnce int) ([]string, string) {
	return e.b.RunFaultConn(stream, chunk, failFrom, failOnce)
}

// after checks the broker's state once the victim's connection has ended; processed = number of requests (after
// CONNECT) the broker has served.
func (e *env) after(s Session, pk []pkt, processed int) string {
	var wantBy []string
	for i := 1; i <= processed && i < len(pk); i++ {
		r := pk[i].req
		if r.K == "pub" {
			for _, f := range []string{"a/b/", "b/a/", "x/y/", "a/a/", "will/"} {
				if vkit.MatchStr(false, f, r.Ch) {
					wantBy = append(wantBy, r.Ch+"|"+fmt.Sprintf("victim-pub-%d", i-1))
				}
			}
		}
	}
	must, may := wantWill(s, pk, processed)
	got, err := e.by.Barrier()
	if err != nil {
		return "bystander barrier: " + err.Error()
	}
	var gotBy []string
	for _, p := range got {
		gotBy = append(gotBy, p.TopicName+"|"+string(p.Payload))
	}
	if msg := checkWill(gotBy, wantBy, must, may); msg != "" {
		return fmt.Sprintf("%s (will variant %q, %d requests served)", msg, s.Will, processed)
	}
	if d := dump(e.b); fmt.Sprint(d) != fmt.Sprint(e.baseline) {
		return fmt.Sprintf("subscription index after the connection ended has %d entries, baseline %d: %v vs %v", len(d), len(e.baseline), d, e.baseline)
	}
	if c := e.b.S.VerifConnections(); c != e.conns {
		return fmt.Sprintf("connection counter is %d, baseline %d", c, e.conns)
	}
	seen, err := e.presenceBarrier()
	if err != nil {
		return err.Error()
	}
	state := map[string]bool{}
	for _, n := range seen {
		switch {
		case n.Event == "subscribe" && !state[n.Channel]:
			state[n.Channel] = true
		case n.Event == "unsubscribe" && state[n.Channel]:
			state[n.Channel] = false
		default:
			return fmt.Sprintf("presence watcher saw %q for %s twice in a row (notifications %+v)", n.Event, n.Channel, seen)
		}
	}
	for ch, on := range state {
		if on {
			return fmt.Sprintf("presence watcher was never told that the connection that ended left %s", ch)
		}
	}
	return ""
}

func runFaultSession(s Session) vkit.Result {
	e, err := getEnv()
	if err != nil {
		panic(err)
	}
	// the victim's own presence-change subscription goes to a channel nobody subscribes under: notifications are
	// delivered asynchronously and would make the sequence of writes differ from run to run
	s.Reqs = append([]Req{}, s.Reqs...)
	for i := range s.Reqs {
		if s.Reqs[i].K == "presence" {
			s.Reqs[i].Ch = "p/"
		}
	}
	pk := e.serialise(s)
	var stream []byte
	for _, p := range pk {
		stream = append(stream, p.raw...)
	}
	fail := func(r FaultRun, msg string) vkit.Result {
		shared = nil
		rj, _ := json.Marshal(r)
		return vkit.Failf("%s   [run %s]", msg, rj)
	}
	chunk := []int{1, 7, 64, 4096}[len(stream)%4]
	base, msg := e.faultRun(s, stream, chunk, -1, -1)
	r0 := FaultRun{s, chunk, "none", 0}
	if msg != "" {
		return fail(r0, msg)
	}
	if msg := e.after(s, pk, len(pk)-1); msg != "" {
		return fail(r0, "no fault: "+msg)
	}
	// request index (1-based, 0 = CONNECT) that each write of the fault-free run belongs to: a request ends with its acknowledgement
	owner := make([]int, len(base))
	req := 0
	for i, d := range base {
		owner[i] = req
		if vkit.IsAckWrite(d) {
			req++
		}
	}
	if req != len(pk) {
		return fail(r0, fmt.Sprintf("fault-free run: %d acknowledgements for %d requests: %v", req, len(pk), base))
	}
	runs := 0
	for k := range base {
		for _, mode := range []string{"from", "once"} {
			r := FaultRun{s, chunk, mode, k}
			var got []string
			if mode == "from" {
				got, msg = e.faultRun(s, stream, chunk, k, -1)
			} else {
				got, msg = e.faultRun(s, stream, chunk, -1, k)
			}
			if msg != "" {
				return fail(r, msg)
			}
			ended := fmt.Sprint(got) == fmt.Sprint(base[:k])
			var without []string
			without = append(append(without, base[:k]...), base[k+1:]...)
			survived := mode == "once" && fmt.Sprint(got) == fmt.Sprint(without)
			if !ended && !survived {
				return fail(r, fmt.Sprintf("write %d of the fault-free run (%s) failed [%s]: the broker then wrote %v; expected either nothing more after %v (connection ended) or, for a single failure, everything else it owed the client: %v",
					k, base[k], mode, got[min(k, len(got)):], base[:k], base[k+1:]))
			}
			processed := len(pk) - 1
			if ended && (vkit.IsAckWrite(base[k]) || mode == "from") {
				processed = owner[k]
			}
			if msg := e.after(s, pk, processed); msg != "" {
				return fail(r, fmt.Sprintf("write %d (%s) failed [%s]: %s", k, base[k], mode, msg))
			}
			runs++
			vkit.RecordRaw("fault-run", []byte(fmt.Sprintf("%v|%d|%s", base, k, mode)), vkit.Result{NonTrivial: k > 0, Labels: []string{"write-fault-" + mode, map[bool]string{true: "fault-on-ack", false: "fault-on-delivery"}[vkit.IsAckWrite(base[k])]}})
		}
	}
	return vkit.Result{NonTrivial: runs > 2, Labels: []string{"fault-session", "will-" + s.Will}}
}

func TestWriteFaults(t *testing.T) { vkit.Check(t, genSession, runFaultSession) }
