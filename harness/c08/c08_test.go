//go:build verif

// C08 — A connection that ends leaves nothing behind; its last will fires once.
// Fault enumeration: a generated victim session is serialised to bytes and cut at EVERY byte offset (socket
// closing at any byte of any request); at packet boundaries the other endings (DISCONNECT, malformed packet whose
// decoding panics, reserved packet type, oversize length) are applied as well. Bystanders hold their own
// subscriptions on the same channels, one watches the will channel, one watches presence changes.
package c08

import (
	"bytes"
	"encoding/json"
	"fmt"
	"sort"
	"strings"
	"testing"
	"time"

	"github.com/eclipse/paho.mqtt.golang/packets"
	"github.com/emitter-io/emitter/internal/security"
	"github.com/emitter-io/emitter/internal/verif/vkit"
	"pgregory.net/rapid"
)

func TestMain(m *testing.M) { vkit.Main(m) }

// Req is one request of the victim after CONNECT. K: sub, unsub, pub, presence (victim asks for presence changes), link,
// connect (the client sends CONNECT again on the connection it already has; the broker accepts and acknowledges it).
type Req struct {
	K      string   `json:"k"`
	Topics []string `json:"topics,omitempty"`
	Ch     string   `json:"ch,omitempty"`
	Auto   bool     `json:"auto,omitempty"`
	Will   string   `json:"will,omitempty"` // K == "connect": the will variant of a further CONNECT on the same connection
}

// Session is the victim's session.
type Session struct {
	Will    string `json:"will"`    // none, ok, nowrite, badtopic, extend
	WillRet bool   `json:"willret"` // retain flag of the will
	User    string `json:"user"`
	Reqs    []Req  `json:"reqs"`
}

var subFilters = []string{"a/b/", "b/a/", "a/a/", "b/b/", "a/", "a/b/c/", "x/y/", "y/x/", "a/+/", "+/b/", "$share/g1/a/b/", "$share/g2/x/y/"}

var families = [][]string{{"a/b/", "b/a/"}, {"a/a/", "b/b/"}, {"x/y/", "y/x/"}, {"a/b/c/", "b/c/a/", "c/a/b/"}, {"a/a/b/", "b/", "c/c/b/"},
	{"a/b/c/", "a/c/b/", "b/a/c/", "c/b/a/"}}

func genSession(t *rapid.T) Session {
	s := Session{Will: rapid.SampledFrom([]string{"none", "ok", "ok", "ok", "nowrite", "badtopic", "extend"}).Draw(t, "will"),
		WillRet: rapid.Bool().Draw(t, "willret"), User: rapid.SampledFrom([]string{"", "joe"}).Draw(t, "user")}
	// family block: one connection takes several filters whose ssids share the XOR hash code (permutations of the same
	// words; a/a/b/ ~ b/ ~ c/c/b/), one SUBSCRIBE each in a drawn order, then gives some of them up in a drawn order
	if rapid.IntRange(0, 9).Draw(t, "family") < 4 {
		fam := rapid.SampledFrom(families).Draw(t, "fam")
		order := rapid.Permutation(fam).Draw(t, "famorder")
		for _, f := range order {
			s.Reqs = append(s.Reqs, Req{K: "sub", Topics: []string{f}})
		}
		for i, n := 0, rapid.IntRange(0, 2).Draw(t, "dups"); i < n; i++ { // a member is subscribed again (a duplicate: acknowledged, nothing changes)
			s.Reqs = append(s.Reqs, Req{K: "sub", Topics: []string{rapid.SampledFrom(fam).Draw(t, "dup")}})
		}
		drop := rapid.Permutation(fam).Draw(t, "droporder")
		for _, f := range drop[:rapid.IntRange(0, len(drop)).Draw(t, "ndrop")] {
			s.Reqs = append(s.Reqs, Req{K: "unsub", Topics: []string{f}})
		}
	}
	for i, n := 0, rapid.IntRange(0, 6).Draw(t, "nreqs"); i < n; i++ {
		var r Req
		switch k := rapid.IntRange(0, 9).Draw(t, "kind"); {
		case k < 5:
			r.K = "sub"
			for j, m := 0, rapid.IntRange(1, 2).Draw(t, "nt"); j < m; j++ {
				r.Topics = append(r.Topics, rapid.SampledFrom(subFilters).Draw(t, "f"))
			}
		case k < 7:
			r.K = "unsub"
			r.Topics = []string{rapid.SampledFrom(subFilters).Draw(t, "f")}
		case k < 8:
			r.K = "pub"
			r.Ch = rapid.SampledFrom([]string{"a/b/", "b/a/", "q/"}).Draw(t, "ch")
		case k < 9:
			r.K = "presence"
			r.Ch = rapid.SampledFrom([]string{"a/", "x/"}).Draw(t, "pch")
		default:
			r.K = "link"
			r.Ch = rapid.SampledFrom([]string{"x/y/", "a/b/", "l/"}).Draw(t, "lch")
			r.Auto = rapid.Bool().Draw(t, "auto")
		}
		s.Reqs = append(s.Reqs, r)
	}
	// a further CONNECT somewhere in the session (same client id and user, possibly another will)
	if rapid.IntRange(0, 9).Draw(t, "reconnect") < 3 {
		r := Req{K: "connect", Will: rapid.SampledFrom([]string{"none", "ok", "ok", "nowrite", "extend"}).Draw(t, "will2")}
		at := rapid.IntRange(0, len(s.Reqs)).Draw(t, "reconnectAt")
		s.Reqs = append(s.Reqs[:at], append([]Req{r}, s.Reqs[at:]...)...)
	}
	return s
}

type env struct {
	b        *vkit.Broker
	key      string // read write presence on #/
	keyR     string
	keyExt   string
	by       *vkit.Client // bystander: a/b/ b/a/ x/y/ a/a/ will/
	watcher  *vkit.Client // presence changes on a/
	sentinel *vkit.Client
	sentID   string
	baseline []string
	conns    int64
	sentSeq  int
}

var shared *env

func dump(b *vkit.Broker) []string {
	_, entries, _ := b.S.VerifTrie().VerifDump()
	var out []string
	for _, e := range entries {
		out = append(out, fmt.Sprintf("%v:%s", e.Ssid, e.ID))
	}
	sort.Strings(out)
	return out
}

func getEnv() (*env, error) {
	if shared != nil {
		return shared, nil
	}
	b, err := vkit.NewBroker(vkit.BrokerOpts{})
	if err != nil {
		return nil, err
	}
	e := &env{b: b, key: b.Key("#/", security.AllowReadWrite|security.AllowPresence), keyR: b.Key("#/", security.AllowRead),
		keyExt: b.Key("#/", security.AllowReadWrite|security.AllowExtend)}
	e.by = b.Attach("bystander")
	if err := e.by.Connect("bystander", "", nil); err != nil {
		return nil, err
	}
	for i, f := range []string{"a/b/", "b/a/", "x/y/", "a/a/", "will/"} {
		if codes, _, err := e.by.Subscribe(uint16(i+1), e.key+"/"+f); err != nil || codes[0] == 0x80 {
			return nil, fmt.Errorf("bystander subscribe: %v %v", codes, err)
		}
	}
	e.watcher = b.Attach("watcher")
	if err := e.watcher.Connect("watcher", "", nil); err != nil {
		return nil, err
	}
	if _, err := e.watcher.Request(1, "presence", map[string]interface{}{"key": e.key, "channel": "a/", "status": false, "changes": true}); err != nil {
		return nil, err
	}
	e.sentinel = b.Attach("sentinel")
	if err := e.sentinel.Connect("sentinel", "", nil); err != nil {
		return nil, err
	}
	pubs, err := e.sentinel.Request(1, "me", map[string]string{})
	if err != nil || len(pubs) != 1 {
		return nil, fmt.Errorf("me: %v", err)
	}
	var me struct {
		ID string `json:"id"`
	}
	json.Unmarshal(pubs[0].Payload, &me)
	e.sentID = me.ID
	// let the presence queue settle, then take the baseline
	if _, err := e.presenceBarrier(); err != nil {
		return nil, err
	}
	e.baseline, e.conns = dump(b), b.S.VerifConnections()
	shared = e
	return e, nil
}

type notif struct {
	Event   string `json:"event"`
	Channel string `json:"channel"`
	Who     struct {
		ID       string `json:"id"`
		Username string `json:"username"`
	} `json:"who"`
}

// presenceBarrier: the sentinel subscribes and unsubscribes a channel under a/; when the watcher has seen both
// notifications, the presence queue (one FIFO goroutine) has delivered everything queued earlier. Returns the
// notifications of other connections seen on the way.
func (e *env) presenceBarrier() ([]notif, error) {
	e.sentSeq++
	ch := fmt.Sprintf("a/zz%d/", e.sentSeq)
	// keep-alive: the broker drops connections that send nothing for 120 s, and the watcher only listens
	e.watcher.Send(packets.NewControlPacket(packets.Pingreq))
	if codes, _, err := e.sentinel.Subscribe(7, e.key+"/"+ch); err != nil || codes[0] == 0x80 {
		return nil, fmt.Errorf("sentinel subscribe: %v %v", codes, err)
	}
	if _, err := e.sentinel.Unsubscribe(8, e.key+"/"+ch); err != nil {
		return nil, err
	}
	var seen []notif
	deadline := time.After(vkit.WaitCeiling)
	for {
		select {
		case m, ok := <-e.watcher.In:
			if !ok {
				return nil, fmt.Errorf("presence watcher connection closed")
			}
			p, isPub := m.(*packets.PublishPacket)
			if !isPub {
				continue
			}
			var n notif
			if err := json.Unmarshal(p.Payload, &n); err != nil || !strings.HasPrefix(p.TopicName, "emitter/presence") {
				return nil, fmt.Errorf("presence watcher received %q %q", p.TopicName, p.Payload)
			}
			if n.Who.ID == e.sentID {
				if n.Event == "unsubscribe" && n.Channel == ch {
					return seen, nil
				}
				continue
			}
			seen = append(seen, n)
		case <-deadline:
			return nil, fmt.Errorf("presence watcher did not see the sentinel's notifications within the ceiling")
		}
	}
}

type pkt struct {
	raw   []byte
	acked bool // produces exactly one non-PUBLISH reply packet
	req   *Req
}

func enc(p packets.ControlPacket) []byte {
	var b bytes.Buffer
	p.Write(&b)
	return b.Bytes()
}

func (e *env) serialise(s Session) []pkt {
	var out []pkt
	connect := func(will string, n int) []byte {
		c := packets.NewControlPacket(packets.Connect).(*packets.ConnectPacket)
		c.ProtocolName, c.ProtocolVersion, c.ClientIdentifier, c.CleanSession, c.Keepalive = "MQTT", 4, "victim", true, 30
		if s.User != "" {
			c.UsernameFlag, c.Username = true, s.User
		}
		if will != "none" {
			c.WillFlag, c.WillMessage, c.WillRetain = true, []byte(willPayload(n)), s.WillRet
			switch will {
			case "ok":
				c.WillTopic = e.key + "/will/"
			case "nowrite":
				c.WillTopic = e.keyR + "/will/"
			case "badtopic":
				c.WillTopic = e.key + "/will"
			case "extend":
				c.WillTopic = e.keyExt + "/will/"
			}
		}
		return enc(c)
	}
	out = append(out, pkt{raw: connect(s.Will, 0), acked: true})
	for i := range s.Reqs {
		r := &s.Reqs[i]
		id := uint16(i + 10)
		switch r.K {
		case "connect":
			out = append(out, pkt{raw: connect(r.Will, i+1), acked: true, req: r})
		case "sub":
			p := packets.NewControlPacket(packets.Subscribe).(*packets.SubscribePacket)
			p.MessageID = id
			for _, f := range r.Topics {
				p.Topics = append(p.Topics, e.key+"/"+f)
				p.Qoss = append(p.Qoss, 0)
			}
			out = append(out, pkt{raw: enc(p), acked: true, req: r})
		case "unsub":
			p := packets.NewControlPacket(packets.Unsubscribe).(*packets.UnsubscribePacket)
			p.MessageID = id
			p.Topics = []string{e.key + "/" + r.Topics[0]}
			out = append(out, pkt{raw: enc(p), acked: true, req: r})
		case "pub", "presence", "link":
			p := packets.NewControlPacket(packets.Publish).(*packets.PublishPacket)
			p.Qos, p.MessageID = 1, id
			switch r.K {
			case "pub":
				p.TopicName, p.Payload = e.key+"/"+r.Ch, []byte(fmt.Sprintf("victim-pub-%d", i))
			case "presence":
				p.TopicName = "emitter/presence/"
				p.Payload, _ = json.Marshal(map[string]interface{}{"key": e.key, "channel": r.Ch, "status": false, "changes": true})
			case "link":
				p.TopicName = "emitter/link/"
				p.Payload, _ = json.Marshal(map[string]interface{}{"name": "l1", "key": e.key, "channel": r.Ch, "subscribe": r.Auto})
			}
			out = append(out, pkt{raw: enc(p), acked: true, req: r})
		}
	}
	return out
}

// willPayload is the will message of the n-th CONNECT of the session (0 = the first).
func willPayload(n int) string {
	if n == 0 {
		return "last-will-of-victim"
	}
	return fmt.Sprintf("last-will-of-victim-%d", n)
}

// wantWill: which will publications are acceptable once the connection has ended, given the CONNECTs the broker has
// served (the first plus the first `served` requests). A will supplied by the most recent CONNECT with a key that may
// publish must be published exactly once; if the most recent CONNECT carried none (or an unusable one) while an
// earlier one did, the statement does not say whether the earlier will still counts: none or that one are accepted.
func wantWill(s Session, pk []pkt, served int) (must string, may []string) {
	last, n := s.Will, 0
	var earlier []string
	for i := 1; i <= served && i < len(pk); i++ {
		if r := pk[i].req; r.K == "connect" {
			if last == "ok" {
				earlier = append(earlier, willPayload(n))
			}
			last, n = r.Will, i
		}
	}
	if last == "ok" {
		return willPayload(n), nil
	}
	return "", earlier
}

// checkWill compares what the bystander received (after the victim's own publishes) with wantWill.
func checkWill(gotBy, wantBy []string, must string, may []string) string {
	if must != "" {
		wantBy = append(append([]string{}, wantBy...), "will/|"+must)
	} else if len(gotBy) == len(wantBy)+1 {
		for _, m := range may {
			if gotBy[len(gotBy)-1] == "will/|"+m {
				gotBy = gotBy[:len(gotBy)-1]
				break
			}
		}
	}
	if fmt.Sprint(gotBy) != fmt.Sprint(wantBy) {
		return fmt.Sprintf("bystander (will watcher) received %v, expected %v", gotBy, wantBy)
	}
	return ""
}

var endings = map[string][]byte{
	"disconnect":    {0xe0, 0x00},
	"decode-panic":  {0x40, 0x01, 0x00},             // PUBACK with a 1-byte body: the decoder reads past it
	"reserved-type": {0xf0, 0x02, 0x00, 0x00},       // packet type 15
	"oversize":      {0x30, 0xff, 0xff, 0xff, 0x7f}, // declares 256 MiB
	"type-zero":     {0x00, 0x00},
}

// Run is one execution: the session prefix [0,Cut) is delivered, then the connection ends in the given way.
type Run struct {
	Session Session `json:"session"`
	Cut     int     `json:"cut"`
	Ending  string  `json:"ending"`
}

func oneRun(e *env, s Session, pk []pkt, cut int, ending string) string {
	var stream []byte
	var bounds []int
	for _, p := range pk {
		stream = append(stream, p.raw...)
		bounds = append(bounds, len(stream))
	}
	complete := 0
	for complete < len(bounds) && bounds[complete] <= cut {
		complete++
	}
	v := e.b.Attach("victim")
	if cut > 0 {
		if err := v.Write(stream[:cut]); err != nil {
			return fmt.Sprintf("writing the prefix: %v", err)
		}
	}
	// wait for the acknowledgement of every complete packet, so that what the broker has processed is known
	acks := 0
	deadline := time.After(vkit.WaitCeiling)
	for acks < complete {
		select {
		case m, ok := <-v.In:
			if !ok {
				return fmt.Sprintf("broker closed the connection after %d of %d complete well-formed packets", acks, complete)
			}
			if _, isPub := m.(*packets.PublishPacket); !isPub {
				acks++
			}
		case <-deadline:
			return fmt.Sprintf("only %d of %d complete packets were acknowledged", acks, complete)
		}
	}
	switch ending {
	case "close":
		if err := v.Close(); err != nil {
			return "after the client closed the socket the broker did not finish closing the connection: " + err.Error()
		}
	default:
		v.Write(endings[ending])
		if err := v.WaitClosed(); err != nil {
			return fmt.Sprintf("after %q the broker did not close the connection: %v", ending, err)
		}
		v.Conn.Close()
	}
	// ---- model of what the victim did
	held := map[string]bool{}
	var wantNotif []string // "event channel" for channels under a/
	note := func(ev, ch string) {
		if vkit.MatchStr(false, "a/", ch) {
			wantNotif = append(wantNotif, ev+" "+ch)
		}
	}
	var wantBy []string
	for i := 1; i < complete; i++ {
		r := pk[i].req
		switch r.K {
		case "sub":
			for _, f := range r.Topics {
				if !held[f] {
					held[f] = true
					note("subscribe", f)
				}
			}
		case "unsub":
			if held[r.Topics[0]] {
				delete(held, r.Topics[0])
				note("unsubscribe", r.Topics[0])
			}
		case "link":
			if r.Auto && !held[r.Ch] {
				held[r.Ch] = true
				note("subscribe", r.Ch)
			}
		case "pub":
			for _, f := range []string{"a/b/", "b/a/", "x/y/", "a/a/", "will/"} {
				if vkit.MatchStr(false, f, r.Ch) {
					wantBy = append(wantBy, r.Ch+"|"+string(fmt.Sprintf("victim-pub-%d", i-1)))
				}
			}
		}
	}
	var closing []string
	for f := range held {
		if vkit.MatchStr(false, "a/", f) {
			closing = append(closing, "unsubscribe "+f)
		}
	}
	sort.Strings(closing)
	must, may := "", []string(nil)
	if complete >= 1 {
		must, may = wantWill(s, pk, complete-1)
	}
	// ---- observations
	got, err := e.by.Barrier()
	if err != nil {
		return "bystander barrier: " + err.Error()
	}
	var gotBy []string
	for _, p := range got {
		gotBy = append(gotBy, p.TopicName+"|"+string(p.Payload))
	}
	if msg := checkWill(gotBy, wantBy, must, may); msg != "" {
		return fmt.Sprintf("%s (will variant %q, %d complete packets)", msg, s.Will, complete)
	}
	if d := dump(e.b); fmt.Sprint(d) != fmt.Sprint(e.baseline) {
		return fmt.Sprintf("subscription index after the connection ended has %d entries, baseline %d: %v vs %v; victim held %v", len(d), len(e.baseline), d, e.baseline, keysOf(held))
	}
	if c := e.b.S.VerifConnections(); c != e.conns {
		return fmt.Sprintf("connection counter is %d, baseline %d", c, e.conns)
	}
	seen, err := e.presenceBarrier()
	if err != nil {
		return err.Error()
	}
	var gotNotif []string
	victimID := ""
	for _, n := range seen {
		if victimID == "" {
			victimID = n.Who.ID
		}
		if n.Who.ID != victimID {
			return fmt.Sprintf("presence watcher saw notifications of two unknown connections (%s, %s)", victimID, n.Who.ID)
		}
		if n.Who.Username != s.User {
			return fmt.Sprintf("presence notification carries username %q, the victim connected as %q", n.Who.Username, s.User)
		}
		gotNotif = append(gotNotif, n.Event+" "+n.Channel)
	}
	// the closing notifications come in no particular order (map iteration): compare the tail as a set
	k := len(wantNotif)
	if len(gotNotif) != k+len(closing) || fmt.Sprint(gotNotif[:k]) != fmt.Sprint(wantNotif) {
		return fmt.Sprintf("presence watcher on a/ saw %v, expected %v followed by %v in any order", gotNotif, wantNotif, closing)
	}
	tail := append([]string{}, gotNotif[k:]...)
	sort.Strings(tail)
	if fmt.Sprint(tail) != fmt.Sprint(closing) {
		return fmt.Sprintf("when the connection ended the presence watcher saw %v, expected one unsubscribe per subscription still held: %v", tail, closing)
	}
	// a publish afterwards reaches the bystander once and nobody else unexpected
	if pubs, err := e.sentinel.Publish(9, e.key+"/a/b/", []byte("after"), false); err != nil || len(pubs) != 0 {
		return fmt.Sprintf("publish after the victim ended: %v, sentinel got %d packets", err, len(pubs))
	}
	after, err := e.by.Barrier()
	if err != nil || len(after) != 1 || string(after[0].Payload) != "after" {
		return fmt.Sprintf("after the victim ended a publish to a/b/ reached the bystander %d times (%v)", len(after), err)
	}
	return ""
}

func keysOf(m map[string]bool) []string {
	var out []string
	for k := range m {
		out = append(out, k)
	}
	sort.Strings(out)
	return out
}

func runSession(s Session) vkit.Result {
	e, err := getEnv()
	if err != nil {
		panic(err)
	}
	pk := e.serialise(s)
	total := 0
	boundary := map[int]bool{}
	for _, p := range pk {
		total += len(p.raw)
		boundary[total] = true
	}
	runs, acked := 0, 0
	fp, _ := json.Marshal(s)
	for cut := 0; cut <= total; cut++ {
		ends := []string{"close"}
		if boundary[cut] || cut == 0 {
			ends = []string{"close", "disconnect", "decode-panic", "reserved-type", "oversize", "type-zero"}
		}
		for _, ending := range ends {
			if msg := oneRun(e, s, pk, cut, ending); msg != "" {
				shared = nil // do not reuse this broker
				rj, _ := json.Marshal(Run{s, cut, ending})
				return vkit.Failf("cut at byte %d of %d, ending %q: %s   [run %s]", cut, total, ending, msg, rj)
			}
			runs++
			nt := cut >= len(pk[0].raw)+1 && len(pk) > 1
			if nt {
				acked++
			}
			vkit.RecordRaw("cut-run", append(append([]byte{}, fp...), []byte(fmt.Sprintf("|%d|%s", cut, ending))...), vkit.Result{NonTrivial: nt, Labels: []string{"ending-" + ending}})
		}
	}
	return vkit.Result{NonTrivial: acked > 0, Labels: []string{"session", "will-" + s.Will}}
}

func TestCutPoints(t *testing.T) { vkit.Check(t, genSession, runSession) }

// waitQueueFull waits until the presence queue is full (the watcher is not reading, so the single sender is stuck), at
// most a few seconds.
func waitQueueFull(e *env) {
	for i := 0; i < 600; i++ {
		if n, c := e.b.S.VerifPresence().VerifQueueLen(); n >= c {
			break
		}
		time.Sleep(5 * time.Millisecond)
	}
	time.Sleep(20 * time.Millisecond)
}

// TestBurstWhileWatcherSlow: a connection holding many subscriptions (more than the presence queue holds) ends
// while the presence watcher is not reading its socket. Every subscription is still removed and the watcher
// is still told about every one of them, in order (subscribe before unsubscribe), once it reads again.
func TestBurstWhileWatcherSlow(t *testing.T) {
	rounds := vkit.N(2)
	for round := 0; round < rounds; round++ {
		e, err := getEnv()
		if err != nil {
			t.Fatal(err)
		}
		n := 150 + 37*round
		c := map[string]int{"subscriptions": n, "round": round}
		fail := func(msg string) {
			shared = nil
			vkit.ReportFailure(t.Name(), c, msg, "")
			t.Fatal(msg)
		}
		v := e.b.Attach("burst-victim")
		if err := v.Connect("burst", "bob", nil); err != nil {
			t.Fatal(err)
		}
		p := packets.NewControlPacket(packets.Subscribe).(*packets.SubscribePacket)
		p.MessageID = 5
		for i := 0; i < n; i++ {
			p.Topics = append(p.Topics, fmt.Sprintf("%s/a/burst%d/", e.key, i))
			p.Qoss = append(p.Qoss, 0)
		}
		e.watcher.Pause()
		if err := v.Send(p); err != nil {
			e.watcher.Resume()
			t.Fatal(err)
		}
		waitQueueFull(e) // the presence queue (100 slots) is full, the victim's request waits
		e.watcher.Resume()
		if _, _, err := v.Until(packets.Suback); err != nil {
			fail("SUBSCRIBE with " + fmt.Sprint(n) + " topics while the presence watcher is slow: " + err.Error())
		}
		e.watcher.Pause()
		v.Conn.Close()
		waitQueueFull(e)
		e.watcher.Resume()
		if err := v.WaitClosed(); err != nil {
			fail("connection with " + fmt.Sprint(n) + " subscriptions did not finish closing: " + err.Error())
		}
		if d := dump(e.b); fmt.Sprint(d) != fmt.Sprint(e.baseline) {
			fail(fmt.Sprintf("index has %d entries after the connection ended, baseline %d", len(d), len(e.baseline)))
		}
		seen, err := e.presenceBarrier()
		if err != nil {
			fail(err.Error())
		}
		state := map[string]int{} // 0 none, 1 subscribed, 2 unsubscribed
		for _, nt := range seen {
			switch {
			case nt.Event == "subscribe" && state[nt.Channel] == 0:
				state[nt.Channel] = 1
			case nt.Event == "unsubscribe" && state[nt.Channel] == 1:
				state[nt.Channel] = 2
			default:
				fail(fmt.Sprintf("presence watcher saw %q for %s out of order or twice (state %d)", nt.Event, nt.Channel, state[nt.Channel]))
			}
			if nt.Who.Username != "bob" {
				fail("notification carries username " + nt.Who.Username)
			}
		}
		done := 0
		for _, s := range state {
			if s == 2 {
				done++
			}
		}
		if done != n || len(state) != n {
			fail(fmt.Sprintf("presence watcher was told about %d subscribe/unsubscribe pairs (%d channels) of %d subscriptions of the connection that ended", done, len(state), n))
		}
		if _, err := e.by.Barrier(); err != nil {
			fail(err.Error())
		}
		vkit.Record(t.Name(), c, vkit.OK(true, "burst-slow-watcher"))
	}
}
