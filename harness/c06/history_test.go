//go:build verif

package c06

// The same reference model observed at the other stated observation point: `emitter/history/` requests sent by a
// client to a broker (in-memory and disk store). Messages are put into the broker's store with chosen times
// (ID.SetTime), the requests carry last / from / until options and page with startFromID.

import (
	"bytes"
	"encoding/json"
	"fmt"
	"sort"
	"strings"
	"testing"
	"time"

	"github.com/emitter-io/emitter/internal/message"
	"github.com/emitter-io/emitter/internal/security"
	"github.com/emitter-io/emitter/internal/service/history"
	"github.com/emitter-io/emitter/internal/verif/vkit"
	"pgregory.net/rapid"
)

// HQ is one history request. Key: "l" load, "rl", "r" (no load permission), "x" (key of another target).
// Last: value of the last option ("" = absent). From/Until: -1 = absent, else second offset in the band.
// Pages: how many startFromID continuation requests follow the first answer.
type HQ struct {
	Filter []string `json:"filter"`
	Key    string   `json:"key"`
	Last   string   `json:"last"`
	From   int      `json:"from"`
	Until  int      `json:"until"`
	Pages  int      `json:"pages"`
	Junk   string   `json:"junk,omitempty"` // "", "payload" (request is not JSON), "channel" (malformed channel)
}

// HCase is a store content and a list of requests.
type HCase struct {
	Disk bool  `json:"disk"`
	Msgs []Msg `json:"msgs"` // C is ignored: everything is stored under the broker's contract
	Qs   []HQ  `json:"qs"`
}

func genHCase(disk bool) func(t *rapid.T) HCase {
	return func(t *rapid.T) HCase {
		c := HCase{Disk: disk}
		for i, n := 0, rapid.IntRange(0, 30).Draw(t, "nmsgs"); i < n; i++ {
			m := Msg{T: rapid.IntRange(0, 5).Draw(t, "t"),
				TTL:  rapid.SampledFrom([]uint32{1, 500, 3600, 3600, 100000, 100000, 4294967295}).Draw(t, "ttl"),
				Size: rapid.SampledFrom([]int{0, 1, 10, 10, 100, 100, 2000, 9000, 20000}).Draw(t, "size")}
			for j, d := 0, rapid.IntRange(1, 4).Draw(t, "depth"); j < d; j++ {
				m.Levels = append(m.Levels, rapid.SampledFrom([]string{"a", "a", "b", "b", "c"}).Draw(t, "lv"))
			}
			c.Msgs = append(c.Msgs, m)
		}
		for i, n := 0, rapid.IntRange(1, 5).Draw(t, "nq"); i < n; i++ {
			q := HQ{From: -1, Until: -1,
				Key:   rapid.SampledFrom([]string{"l", "l", "l", "rl", "rl", "r", "x"}).Draw(t, "key"),
				Last:  rapid.SampledFrom([]string{"", "", "0", "1", "2", "2", "3", "5", "40", "1000000", "4611686018427387904"}).Draw(t, "last"),
				Pages: rapid.SampledFrom([]int{0, 1, 3, 50}).Draw(t, "pages"),
				Junk:  rapid.SampledFrom([]string{"", "", "", "", "", "", "", "", "payload", "channel"}).Draw(t, "junk")}
			q.Filter = []string{rapid.SampledFrom([]string{"a", "a", "b", "b", "c"}).Draw(t, "f0")}
			for j, d := 1, rapid.SampledFrom([]int{1, 1, 1, 2, 2, 3, 4, 5}).Draw(t, "fdepth"); j < d; j++ {
				q.Filter = append(q.Filter, rapid.SampledFrom([]string{"a", "b", "+", "+", "c"}).Draw(t, "fl"))
			}
			switch rapid.IntRange(0, 3).Draw(t, "win") {
			case 1:
				q.From = rapid.IntRange(0, 5).Draw(t, "from")
			case 2:
				q.Until = rapid.IntRange(0, 5).Draw(t, "until")
			case 3:
				q.From, q.Until = rapid.IntRange(0, 5).Draw(t, "from"), rapid.IntRange(0, 5).Draw(t, "until")
			}
			c.Qs = append(c.Qs, q)
		}
		return c
	}
}

type hbroker struct {
	b    *vkit.Broker
	cl   *vkit.Client
	keys map[string]string
}

var hbrokers = map[bool]*hbroker{}
var hcaseNo int

func theHBroker(disk bool) *hbroker {
	if h := hbrokers[disk]; h != nil {
		return h
	}
	o := vkit.BrokerOpts{Storage: "inmemory", Retention: int(retainS)}
	if disk {
		o.Storage = "ssd"
	}
	b, err := vkit.NewBroker(o)
	if err != nil {
		panic(err)
	}
	h := &hbroker{b: b, keys: map[string]string{
		"l":  b.Key("#/", security.AllowLoad),
		"rl": b.Key("#/", security.AllowLoad|security.AllowRead),
		"r":  b.Key("#/", security.AllowRead|security.AllowWrite|security.AllowStore|security.AllowPresence),
		"x":  b.Key("zzz/#/", security.AllowLoad),
	}}
	h.cl = b.Attach("history-client")
	if err := h.cl.Connect("c6-history", "", nil); err != nil {
		panic(err)
	}
	hbrokers[disk] = h
	return h
}

const (
	noReply        = -1
	droppedFinding = "C06-history-reply-dropped"
)

type hresp struct {
	Req      int `json:"req"`
	Messages []struct {
		ID      []byte `json:"id"`
		Channel string `json:"channel"`
		Payload []byte `json:"payload"`
	} `json:"messages"`
}

func runHistory(c HCase) vkit.Result {
	vkit.Quiet()
	h := theHBroker(c.Disk)
	fail := func(format string, a ...interface{}) vkit.Result {
		if hb := hbrokers[c.Disk]; hb != nil { // never reuse a broker after a failure
			delete(hbrokers, c.Disk)
		}
		return vkit.Failf(format, a...)
	}
	hcaseNo++
	ns := fmt.Sprintf("h%d", hcaseNo)
	contract := h.b.Lic.Contract()
	st := h.b.S.VerifStorage()
	now := time.Now().Unix()
	base := now - 1000
	var recs []rec
	for i, m := range c.Msgs {
		levels := append([]string{ns}, m.Levels...)
		r := rec{contract: contract, levels: levels, channel: strings.Join(levels, "/") + "/", time: base + int64(m.T), ttl: m.TTL, seq: i}
		r.payload = bytes.Repeat([]byte{byte('a' + i%26)}, m.Size)
		msg := message.New(ssid(contract, levels), []byte(r.channel), r.payload)
		msg.ID.SetTime(r.time)
		msg.TTL = m.TTL
		r.id = append(message.ID(nil), msg.ID...)
		if m.TTL == message.RetainedTTL {
			r.ttl = retainS
		}
		if err := st.Store(msg); err != nil {
			return fail("Store of message %d: %v", i, err)
		}
		recs = append(recs, r)
	}
	labels := map[string]bool{}
	nontrivial := false
	reqID := uint16(0)
	for qi, q := range c.Qs {
		filter := append([]string{ns}, q.Filter...)
		var from, until int64
		var opts []string
		if q.Last != "" {
			opts = append(opts, "last="+q.Last)
		}
		if q.From >= 0 {
			from = base + int64(q.From)
			opts = append(opts, fmt.Sprintf("from=%d", from))
		}
		if q.Until >= 0 {
			until = base + int64(q.Until)
			opts = append(opts, fmt.Sprintf("until=%d", until))
		}
		limit := int64(1)
		if q.Last != "" {
			fmt.Sscan(q.Last, &limit)
		}
		channel := h.keys[q.Key] + "/" + strings.Join(filter, "/") + "/"
		if len(opts) > 0 {
			channel += "?" + strings.Join(opts, "&")
		}
		desc := fmt.Sprintf("request %d {filter %v key %s options %v}", qi, q.Filter, q.Key, opts)
		var cand []rec
		expired := false
		for _, r := range recs {
			if len(filter) > len(r.levels) {
				continue
			}
			ok := true
			for i, f := range filter {
				if f != "+" && f != r.levels[i] {
					ok = false
				}
			}
			if !ok || r.time < from || (until != 0 && r.time > until) {
				continue
			}
			if r.time+int64(r.ttl) <= now {
				expired = true
				continue
			}
			cand = append(cand, r)
		}
		sort.Slice(cand, func(i, j int) bool {
			if cand[i].time != cand[j].time {
				return cand[i].time > cand[j].time
			}
			return cand[i].seq > cand[j].seq
		})
		capHit := false
		page := func(rest []rec) (exp []rec) {
			size := 0
			for _, r := range rest {
				if int64(len(exp)) >= limit {
					break
				}
				size += len(r.payload) + len(r.id) + len(r.channel)
				if size > 65536 {
					capHit = true
					break
				}
				exp = append(exp, r)
			}
			return
		}
		ask := func(startFrom message.ID) (*hresp, int, string) {
			reqID++
			body := map[string]interface{}{"key": h.keys[q.Key], "channel": channel}
			if startFrom != nil {
				body["startFromID"] = []byte(startFrom)
			}
			var raw []byte
			switch q.Junk {
			case "payload":
				raw = []byte(`{"channel": 12`)
			case "channel":
				body["channel"] = h.keys[q.Key] + "/" + ns + "/a b/"
				raw, _ = json.Marshal(body)
			default:
				raw, _ = json.Marshal(body)
			}
			pubs, err := h.cl.Publish(reqID, "emitter/history/", raw, false)
			if err != nil {
				return nil, 0, fmt.Sprintf("%s: %v", desc, err)
			}
			if len(pubs) == 0 {
				return nil, noReply, fmt.Sprintf("%s: no reply to the history request", desc)
			}
			if len(pubs) != 1 {
				return nil, 0, fmt.Sprintf("%s: %d replies to one history request", desc, len(pubs))
			}
			if status, req, isErr := vkit.IsErrorReply(pubs[0]); isErr {
				if req != int(reqID) {
					return nil, 0, fmt.Sprintf("%s: error reply carries request id %d, sent %d", desc, req, reqID)
				}
				return nil, status, ""
			}
			if !strings.HasPrefix(pubs[0].TopicName, "emitter/history") {
				return nil, 0, fmt.Sprintf("%s: reply on topic %q", desc, pubs[0].TopicName)
			}
			var e struct {
				Req    int `json:"req"`
				Status int `json:"status"`
			}
			if json.Unmarshal(pubs[0].Payload, &e) == nil && e.Status != 0 { // a refusal arrives on the request's own topic
				if e.Req != int(reqID) {
					return nil, 0, fmt.Sprintf("%s: error reply carries request id %d, sent %d", desc, e.Req, reqID)
				}
				return nil, e.Status, ""
			}
			var r hresp
			if err := json.Unmarshal(pubs[0].Payload, &r); err != nil {
				return nil, 0, fmt.Sprintf("%s: reply does not parse: %v", desc, err)
			}
			if r.Req != int(reqID) {
				return nil, 0, fmt.Sprintf("%s: reply carries request id %d, sent %d", desc, r.Req, reqID)
			}
			return &r, 200, ""
		}
		compare := func(got *hresp, exp []rec, what string) string {
			want := map[string]rec{}
			for _, r := range exp {
				want[string(r.id)] = r
			}
			seen := map[string]bool{}
			var prev int64
			for i, m := range got.Messages {
				if tm := message.ID(m.ID).Time(); i > 0 && tm < prev {
					return fmt.Sprintf("%s %s: messages not ordered by non-decreasing time", what, desc)
				} else {
					prev = tm
				}
				r, ok := want[string(m.ID)]
				if !ok {
					why := "is not a stored message of this case"
					for _, o := range recs {
						if string(o.id) == string(m.ID) {
							why = fmt.Sprintf("(channel %s, second %d, seq %d, ttl %d) is not among the %d expected", o.channel, o.time-base, o.seq, o.ttl, len(exp))
						}
					}
					return fmt.Sprintf("%s %s: returned message on %s %s", what, desc, m.Channel, why)
				}
				if seen[string(m.ID)] {
					return fmt.Sprintf("%s %s: message seq %d returned twice", what, desc, r.seq)
				}
				seen[string(m.ID)] = true
				if m.Channel != r.channel || !bytes.Equal(m.Payload, r.payload) {
					return fmt.Sprintf("%s %s: message seq %d comes back as %q with %d payload bytes; stored %q, %d", what, desc, r.seq, m.Channel, len(m.Payload), r.channel, len(r.payload))
				}
			}
			if len(got.Messages) != len(exp) {
				return fmt.Sprintf("%s %s: %d messages returned, %d expected out of %d candidates", what, desc, len(got.Messages), len(exp), len(cand))
			}
			return ""
		}
		// the reply is one MQTT PUBLISH on emitter/history/ carrying the JSON document: its exact size decides whether it can be sent
		replyLen := func(exp []rec) int {
			resp := history.Response{Request: reqID + 1}
			for _, r := range exp {
				resp.Messages = append(resp.Messages, history.Message{ID: r.id, Channel: r.channel, Payload: r.payload})
			}
			b, _ := json.Marshal(&resp)
			return 2 + len("emitter/history/") + len(b)
		}
		exp := page(cand)
		if replyLen(exp) > 65536 && q.Junk == "" && q.Key != "r" && q.Key != "x" {
			// the messages fit the store's reply cap, but their JSON form does not fit one packet
			_, status, msg := ask(nil)
			if status == noReply {
				r := vkit.Failf("%s: the %d matching messages (%d bytes as a reply) are within the 64 KiB reply cap of the store, but the client gets NO reply at all to its history request", desc, len(exp), replyLen(exp))
				r.Finding = droppedFinding
				return r
			}
			if msg != "" {
				return fail("%s", msg)
			}
			labels["oversize-reply-answered"] = true
			continue
		}
		got, status, msg := ask(nil)
		if msg != "" {
			return fail("%s", msg)
		}
		wantStatus := 200
		switch {
		case q.Junk != "":
			wantStatus = 400
		case q.Key == "r" || q.Key == "x":
			wantStatus = 401
		}
		if status != wantStatus {
			return fail("%s: answered with status %d, expected %d", desc, status, wantStatus)
		}
		if status != 200 {
			labels[fmt.Sprintf("refused-%d", status)] = true
			continue
		}
		if msg := compare(got, exp, "first page"); msg != "" {
			return fail("%s", msg)
		}
		if expired {
			labels["expired-present"] = true
		}
		if capHit {
			labels["size-cap-hit"] = true
		}
		if len(cand) > 0 && len(cand) < len(recs) && len(exp) > 0 {
			nontrivial = true
		}
		pos := len(exp)
		for pg := 0; pg < q.Pages && len(exp) > 0; pg++ {
			last := exp[len(exp)-1]
			exp = page(cand[pos:])
			if replyLen(exp) > 65536 {
				break
			}
			got, status, msg = ask(last.id)
			if msg != "" {
				return fail("%s", msg)
			}
			if status != 200 {
				return fail("%s: continuation page %d answered with status %d", desc, pg+2, status)
			}
			if msg := compare(got, exp, fmt.Sprintf("page %d (startFromID = oldest id of the page before)", pg+2)); msg != "" {
				return fail("%s", msg)
			}
			pos += len(exp)
			labels["continuation-page"] = true
			if len(exp) == 0 && pos != len(cand) && !capHit {
				return fail("%s: paging ended after %d of %d candidates", desc, pos, len(cand))
			}
		}
	}
	r := vkit.Result{NonTrivial: nontrivial}
	for l := range labels {
		r.Labels = append(r.Labels, l)
	}
	sort.Strings(r.Labels)
	if c.Disk {
		r.Labels = append(r.Labels, "history-request-ssd")
	} else {
		r.Labels = append(r.Labels, "history-request-inmemory")
	}
	return r
}

// TestProbeReplyDropped replays the minimal reproduction of the listed finding: 8 stored messages of 8 000 bytes
// (64 KB: inside the store's cap) asked for with last=8.
func TestProbeReplyDropped(t *testing.T) {
	c := HCase{Qs: []HQ{{Filter: []string{"a"}, Key: "l", Last: "8", From: -1, Until: -1}}}
	for i := 0; i < 8; i++ {
		c.Msgs = append(c.Msgs, Msg{Levels: []string{"a"}, T: i % 6, TTL: 3600, Size: 8000})
	}
	r := runHistory(c)
	vkit.Probe(droppedFinding, r.Fail != "" && r.Finding == droppedFinding, r.Fail)
	if r.Fail != "" && r.Finding != droppedFinding {
		vkit.ReportFailure(t.Name(), c, r.Fail, "")
		t.Fatal(r.Fail)
	}
}

func TestHistoryRequestInMemory(t *testing.T) { vkit.Check(t, genHCase(false), runHistory) }
func TestHistoryRequestDisk(t *testing.T) {
	vkit.Check(t, genHCase(true), runHistory)
	if h := hbrokers[true]; h != nil {
		h.b.Close()
		delete(hbrokers, true)
	}
}
