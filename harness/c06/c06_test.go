//go:build verif

// C06 — History queries return exactly the stored, live, matching messages.
// Model-based property test of the in-memory and the disk message store: generated stores (prefix collisions
// between contracts by construction, shared seconds, expired messages, payloads up to 60 KiB) and generated
// queries (filter, window, limit, continuation pages to exhaustion) against a sorted reference list.
package c06

import (
	"bytes"
	"fmt"
	"os"
	"sort"
	"strings"
	"testing"
	"time"

	"github.com/emitter-io/emitter/internal/message"
	"github.com/emitter-io/emitter/internal/provider/storage"
	"github.com/emitter-io/emitter/internal/security/hash"
	"github.com/emitter-io/emitter/internal/verif/vkit"
	"pgregory.net/rapid"
)

func TestMain(m *testing.M) { vkit.Main(m) }

// Msg is one stored message. C: contract index (0 and 1 collide in the key prefix when the first levels are a / b).
type Msg struct {
	C      int      `json:"c"`
	Levels []string `json:"levels"`
	T      int      `json:"t"`   // second offset inside the band 0..5
	TTL    uint32   `json:"ttl"` // <=500: already expired (the band lies 1000 s in the past); >=3600: live
	Size   int      `json:"size"`
}

// Q is one query. From/Until: -1 = not given, else second offset. Cont: 0 none, 1 page from the oldest id to
// exhaustion, 2 one continuation from the Pick-th returned id, 3 continuation id taken from the same query without its window.
type Q struct {
	C      int      `json:"c"`
	Filter []string `json:"filter"`
	From   int      `json:"from"`
	Until  int      `json:"until"`
	Limit  int      `json:"limit"`
	Cont   int      `json:"cont,omitempty"`
	Pick   int      `json:"pick,omitempty"`
}

// Case is a store and a list of queries.
type Case struct {
	Disk bool  `json:"disk"`
	Age  int   `json:"age,omitempty"` // how many seconds in the past the 6-second band lies (0 = 1000): also older than the configured retention (7200 s) and than the default one (30 days)
	Msgs []Msg `json:"msgs"`
	Qs   []Q   `json:"qs"`
	// Reopen (disk provider): the store is closed and opened again on its directory between the stores and the queries -
	// history is asked for in another life of the broker than the one that stored it
	Reopen bool `json:"reopen,omitempty"`
}

var lits = []string{"a", "b", "c"}

func genCase(disk bool) func(t *rapid.T) Case {
	return func(t *rapid.T) Case {
		c := Case{Disk: disk, Age: rapid.SampledFrom([]int{1000, 1000, 1000, 10000, 3000000}).Draw(t, "age")}
		c.Reopen = disk && rapid.IntRange(0, 3).Draw(t, "reopen") == 0
		for i, n := 0, rapid.IntRange(0, 40).Draw(t, "nmsgs"); i < n; i++ {
			m := Msg{C: rapid.SampledFrom([]int{0, 0, 0, 1, 1, 2}).Draw(t, "c"), T: rapid.IntRange(0, 5).Draw(t, "t"),
				TTL:  rapid.SampledFrom([]uint32{1, 500, 3600, 3600, 100000, 100000, 4000000, 4000000, 4294967295}).Draw(t, "ttl"),
				Size: rapid.SampledFrom([]int{0, 1, 10, 10, 100, 100, 20000, 30000, 60000}).Draw(t, "size")}
			for j, d := 0, rapid.IntRange(1, 4).Draw(t, "depth"); j < d; j++ {
				m.Levels = append(m.Levels, rapid.SampledFrom([]string{"a", "a", "b", "b", "c"}).Draw(t, "lv"))
			}
			c.Msgs = append(c.Msgs, m)
		}
		for i, n := 0, rapid.IntRange(1, 6).Draw(t, "nq"); i < n; i++ {
			q := Q{C: rapid.SampledFrom([]int{0, 0, 0, 1, 1, 2}).Draw(t, "qc"), From: -1, Until: -1,
				Limit: rapid.SampledFrom([]int{0, 1, 1, 1, 2, 2, 3, 5, 40, 100, 1 << 20, 1 << 31, 1 << 62}).Draw(t, "limit"),
				Cont:  rapid.SampledFrom([]int{0, 1, 1, 1, 2, 3, 3}).Draw(t, "cont"), Pick: rapid.IntRange(0, 100).Draw(t, "pick")}
			q.Filter = []string{rapid.SampledFrom([]string{"a", "a", "b", "b", "c"}).Draw(t, "f0")}
			for j, d := 1, rapid.SampledFrom([]int{1, 1, 1, 2, 2, 3, 4, 5}).Draw(t, "fdepth"); j < d; j++ {
				q.Filter = append(q.Filter, rapid.SampledFrom([]string{"a", "b", "+", "+", "c"}).Draw(t, "fl"))
			}
			switch rapid.IntRange(0, 3).Draw(t, "win") {
			case 1:
				q.From = rapid.IntRange(0, 5).Draw(t, "from")
			case 2:
				q.Until = rapid.IntRange(0, 5).Draw(t, "until")
			case 3:
				q.From, q.Until = rapid.IntRange(0, 5).Draw(t, "from"), rapid.IntRange(0, 5).Draw(t, "until")
			}
			c.Qs = append(c.Qs, q)
		}
		return c
	}
}

// ---------------------------------------------------------------------------------------------

type rec struct {
	contract uint32
	levels   []string
	channel  string
	time     int64
	ttl      uint32
	seq      int
	id       message.ID
	payload  []byte
}

func ssid(contract uint32, levels []string) message.Ssid {
	q := make([]uint32, len(levels))
	for i, l := range levels {
		q[i] = hash.OfString(l)
	}
	return message.NewSsid(contract, q)
}

var (
	mem     *storage.InMemory
	disk    *storage.SSD
	diskDir string
	caseNo  uint32
	retainS = uint32(7200)
)

func store(d bool) (storage.Storage, error) {
	if d {
		if disk == nil {
			dir, err := os.MkdirTemp(vkit.OutDir(), "ssd")
			if err != nil {
				return nil, err
			}
			s := storage.NewSSD(nil)
			if err := s.Configure(map[string]interface{}{"dir": dir, "retain": float64(retainS)}); err != nil {
				return nil, err
			}
			disk, diskDir = s, dir
		}
		return disk, nil
	}
	if mem == nil {
		s := storage.NewInMemory(nil)
		if err := s.Configure(map[string]interface{}{"retain": float64(retainS)}); err != nil {
			return nil, err
		}
		mem = s
	}
	return mem, nil
}

func run(c Case) vkit.Result {
	vkit.Quiet()
	s, err := store(c.Disk)
	if err != nil {
		panic(err)
	}
	// a fresh contract namespace per case: one store instance serves many cases without interference.
	// contracts[0]^h(a) == contracts[1]^h(b): two contracts share the key prefix for first levels a / b.
	caseNo++
	ha, hb := hash.OfString("a"), hash.OfString("b")
	c0 := 0x10000000 + caseNo*8
	contracts := []uint32{c0, c0 ^ ha ^ hb, c0 + 3}
	now := time.Now().Unix()
	if c.Age == 0 {
		c.Age = 1000
	}
	// every ttl of the generator is either shorter than the band's age by >= 500 s (expired) or longer by >= 1 h (live):
	// ages 1000 / 10000 / 3000000 against ttls 1, 500, 3600, 7200 (retained), 100000, 4000000
	base := now - int64(c.Age)
	var recs []rec
	for i, m := range c.Msgs {
		r := rec{contract: contracts[m.C], levels: m.Levels, channel: strings.Join(m.Levels, "/") + "/", time: base + int64(m.T), ttl: m.TTL, seq: i}
		r.payload = bytes.Repeat([]byte{byte(i + 1)}, m.Size)
		msg := message.New(ssid(r.contract, r.levels), []byte(r.channel), r.payload)
		msg.ID.SetTime(r.time)
		msg.TTL = m.TTL
		r.id = append(message.ID(nil), msg.ID...)
		if m.TTL == message.RetainedTTL {
			r.ttl = retainS // "retain meaning the configured retention period"
		}
		if err := s.Store(msg); err != nil {
			return vkit.Failf("Store of message %d: %v", i, err)
		}
		recs = append(recs, r)
	}
	labels := map[string]bool{}
	if c.Disk && c.Reopen {
		if err := disk.Close(); err != nil {
			return vkit.Failf("closing the store: %v", err)
		}
		s2 := storage.NewSSD(nil)
		if err := s2.Configure(map[string]interface{}{"dir": diskDir, "retain": float64(retainS)}); err != nil {
			disk = nil
			return vkit.Failf("the store does not open again on its directory: %v", err)
		}
		disk, s = s2, s2
		labels["queried-in-another-life"] = true
	}
	nontrivial := false
	for qi, q := range c.Qs {
		contract := contracts[q.C]
		var from, until int64
		if q.From >= 0 {
			from = base + int64(q.From)
		}
		if q.Until >= 0 {
			until = base + int64(q.Until)
		}
		// model: candidates in key order (newest first; within one second the later created first)
		var cand []rec
		expiredSeen, foreignSeen := false, false
		for _, r := range recs {
			if r.contract != contract && r.contract^hash.OfString(r.levels[0]) == contract^hash.OfString(q.Filter[0]) && r.time >= from && (until == 0 || r.time <= until) {
				foreignSeen = true // another contract's message lies in the scanned key range (same key prefix)
			}
			if len(q.Filter) > len(r.levels) {
				continue
			}
			ok := true
			for i, f := range q.Filter {
				if f != "+" && f != r.levels[i] {
					ok = false
				}
			}
			if !ok || r.time < from || (until != 0 && r.time > until) {
				continue
			}
			if r.contract != contract {
				continue
			}
			if r.time+int64(r.ttl) <= now {
				expiredSeen = true
				continue
			}
			cand = append(cand, r)
		}
		sort.Slice(cand, func(i, j int) bool {
			if cand[i].time != cand[j].time {
				return cand[i].time > cand[j].time
			}
			return cand[i].seq > cand[j].seq
		})
		page := func(rest []rec) (exp []rec) {
			size := 0
			for _, r := range rest {
				if len(exp) >= q.Limit {
					break
				}
				size += len(r.payload) + len(r.id) + len(r.channel)
				if size > 65536 {
					labels["size-cap-hit"] = true
					break
				}
				exp = append(exp, r)
			}
			return
		}
		tm := func(x int64) time.Time { return time.Unix(x, 0) }
		desc := fmt.Sprintf("query %d {contract %d filter %v from %d until %d limit %d}", qi, q.C, q.Filter, q.From, q.Until, q.Limit)
		compare := func(got message.Frame, exp []rec, what string) string {
			for i := range got {
				if i > 0 && got[i-1].Time() > got[i].Time() {
					return fmt.Sprintf("%s %s: result not ordered by non-decreasing time", what, desc)
				}
			}
			want := map[string]rec{}
			for _, r := range exp {
				want[string(r.id)] = r
			}
			seen := map[string]bool{}
			for _, m := range got {
				r, ok := want[string(m.ID)]
				if !ok {
					why := "is not among the expected messages"
					for _, o := range recs {
						if string(o.id) == string(m.ID) {
							switch {
							case o.contract != contract:
								why = "belongs to another contract"
							case o.time+int64(o.ttl) <= now:
								why = "has expired"
							default:
								why = fmt.Sprintf("(channel %s, second %d, seq %d) is not among the %d expected", o.channel, o.time-base, o.seq, len(exp))
							}
						}
					}
					return fmt.Sprintf("%s %s: returned message on %s %s", what, desc, m.Channel, why)
				}
				if seen[string(m.ID)] {
					return fmt.Sprintf("%s %s: message seq %d returned twice", what, desc, r.seq)
				}
				seen[string(m.ID)] = true
				if string(m.Channel) != r.channel || !bytes.Equal(m.Payload, r.payload) || m.TTL != r.ttl {
					return fmt.Sprintf("%s %s: message seq %d comes back with channel %q, %d payload bytes, ttl %d; stored %q, %d, %d", what, desc, r.seq, m.Channel, len(m.Payload), m.TTL, r.channel, len(r.payload), r.ttl)
				}
			}
			if len(got) != len(exp) {
				var missing []int
				for _, r := range exp {
					if !seen[string(r.id)] {
						missing = append(missing, r.seq)
					}
				}
				return fmt.Sprintf("%s %s: %d messages returned, %d expected (missing seq %v) out of %d candidates", what, desc, len(got), len(exp), missing, len(cand))
			}
			return ""
		}
		exp := page(cand)
		got, err := s.Query(ssid(contract, q.Filter), tm(from), tm(until), nil, q.Limit)
		if err != nil {
			return vkit.Failf("%s: %v", desc, err)
		}
		if msg := compare(got, exp, "first page"); msg != "" {
			return vkit.Result{Fail: msg}
		}
		if len(cand) > 0 && len(cand) < len(recs) && len(exp) > 0 && (foreignSeen || expiredSeen || q.Cont != 0) {
			nontrivial = true
		}
		if foreignSeen {
			labels["prefix-collision-present"] = true
		}
		if expiredSeen {
			labels["expired-present"] = true
		}
		switch {
		case q.Cont == 1 && len(exp) > 0:
			// follow the continuation chain from the oldest returned id until a page comes back empty
			returned := map[string]bool{}
			for _, r := range exp {
				returned[string(r.id)] = true
			}
			pos := len(exp)
			last := exp[len(exp)-1]
			for pg := 2; pg < 200; pg++ {
				expN := page(cand[pos:])
				gotN, err := s.Query(ssid(contract, q.Filter), tm(from), tm(until), last.id, q.Limit)
				if err != nil {
					return vkit.Failf("%s page %d: %v", desc, pg, err)
				}
				for _, m := range gotN {
					if returned[string(m.ID)] {
						return vkit.Failf("page %d of %s returns a message (channel %s) that an earlier page already returned", pg, desc, m.Channel)
					}
				}
				if msg := compare(gotN, expN, fmt.Sprintf("page %d", pg)); msg != "" {
					return vkit.Result{Fail: msg}
				}
				if len(expN) == 0 {
					break
				}
				for _, r := range expN {
					returned[string(r.id)] = true
				}
				pos += len(expN)
				last = expN[len(expN)-1]
				labels["continuation-page"] = true
			}
			if pos != len(cand) && !labels["size-cap-hit"] {
				return vkit.Failf("%s: paging to exhaustion covered %d of %d candidates", desc, pos, len(cand))
			}
		case q.Cont == 2 && len(exp) > 0:
			k := q.Pick % len(exp)
			expN := page(cand[k+1:])
			gotN, err := s.Query(ssid(contract, q.Filter), tm(from), tm(until), exp[k].id, q.Limit)
			if err != nil {
				return vkit.Failf("%s continuation: %v", desc, err)
			}
			if msg := compare(gotN, expN, fmt.Sprintf("continuation from returned id #%d", k)); msg != "" {
				return vkit.Result{Fail: msg}
			}
			labels["continuation-arbitrary-id"] = true
		}
		if q.Cont == 3 && (q.From >= 0 || q.Until >= 0) {
			// continuation id obtained from a wider query (same filter, no window), then used together with the window:
			// the page holds the window's candidates that are older than that id
			var wide []rec
			for _, r := range recs {
				if r.contract != contract || len(q.Filter) > len(r.levels) || r.time+int64(r.ttl) <= now {
					continue
				}
				ok := true
				for i, f := range q.Filter {
					if f != "+" && f != r.levels[i] {
						ok = false
					}
				}
				if ok {
					wide = append(wide, r)
				}
			}
			if len(wide) > 0 {
				sort.Slice(wide, func(i, j int) bool {
					if wide[i].time != wide[j].time {
						return wide[i].time > wide[j].time
					}
					return wide[i].seq > wide[j].seq
				})
				start := wide[q.Pick%len(wide)]
				var rest []rec
				for _, r := range cand {
					if r.time < start.time || (r.time == start.time && r.seq < start.seq) {
						rest = append(rest, r)
					}
				}
				expN := page(rest)
				gotN, err := s.Query(ssid(contract, q.Filter), tm(from), tm(until), start.id, q.Limit)
				if err != nil {
					return vkit.Failf("%s continuation: %v", desc, err)
				}
				if msg := compare(gotN, expN, fmt.Sprintf("continuation from the id of second %d (seq %d) returned by the same query without a window", start.time-base, start.seq)); msg != "" {
					return vkit.Result{Fail: msg}
				}
				labels["continuation-id-from-wider-query"] = true
				if start.time > until && until != 0 {
					labels["continuation-id-newer-than-window"] = true
				}
			}
		}
	}
	r := vkit.Result{NonTrivial: nontrivial}
	for l := range labels {
		r.Labels = append(r.Labels, l)
	}
	sort.Strings(r.Labels)
	if c.Age > 7200 {
		r.Labels = append(r.Labels, "band-older-than-retention")
	}
	if c.Disk {
		r.Labels = append(r.Labels, "provider-ssd")
	} else {
		r.Labels = append(r.Labels, "provider-inmemory")
	}
	return r
}

func TestQueryInMemory(t *testing.T) { vkit.Check(t, genCase(false), run) }
func TestQueryDisk(t *testing.T) {
	vkit.Check(t, genCase(true), run)
	if disk != nil {
		disk.Close()
		disk = nil
	}
}

// TestBigStore: limits beyond any internal buffer size. 1300 tiny messages on one channel (inside the reply cap),
// limits around 1024 and above; continuation from the oldest id until exhaustion with limit 500.
func TestBigStore(t *testing.T) {
	for _, d := range []bool{false, true} {
		s, err := store(d)
		if err != nil {
			t.Fatal(err)
		}
		caseNo++
		contract := 0x20000000 + caseNo*8
		const total = 1300
		base := time.Now().Unix() - 1000
		var ids []message.ID
		for i := 0; i < total; i++ {
			m := message.New(ssid(contract, []string{"a"}), []byte("a/"), []byte{byte(i)})
			m.ID.SetTime(base + int64(i/400))
			m.TTL = 100000
			ids = append(ids, append(message.ID(nil), m.ID...))
			if err := s.Store(m); err != nil {
				t.Fatal(err)
			}
		}
		for _, limit := range []int{1000, 1023, 1024, 1025, 1200, 1300, 5000} {
			got, err := s.Query(ssid(contract, []string{"a"}), time.Unix(0, 0), time.Unix(0, 0), nil, limit)
			want := limit
			if want > total {
				want = total
			}
			c := map[string]interface{}{"disk": d, "stored": total, "limit": limit}
			ok := err == nil && len(got) == want
			seen := map[string]bool{}
			for _, m := range got {
				seen[string(m.ID)] = true
			}
			for i := total - want; i < total && ok; i++ {
				ok = seen[string(ids[i])]
			}
			if !ok {
				vkit.ReportFailure(t.Name(), c, fmt.Sprintf("query with limit %d on %d stored matching messages returned %d (err %v), expected the newest %d", limit, total, len(got), err, want), "")
				t.Fatalf("limit %d got %d", limit, len(got))
			}
			vkit.Record(t.Name(), c, vkit.OK(true, "big-store"))
		}
		// paging with limit 500: 500 + 500 + 300 + 0, disjoint, covering everything
		seen := map[string]bool{}
		var from message.ID
		for page := 0; page < 5; page++ {
			got, _ := s.Query(ssid(contract, []string{"a"}), time.Unix(0, 0), time.Unix(0, 0), from, 500)
			if len(got) == 0 {
				break
			}
			oldest := got[0].ID
			for _, m := range got {
				if seen[string(m.ID)] {
					vkit.ReportFailure(t.Name(), map[string]interface{}{"disk": d, "page": page}, "a message is returned on two continuation pages", "")
					t.Fatal("duplicate across pages")
				}
				seen[string(m.ID)] = true
				if bytes.Compare(m.ID, oldest) > 0 {
					oldest = m.ID
				}
			}
			from = oldest
		}
		if len(seen) != total {
			vkit.ReportFailure(t.Name(), map[string]interface{}{"disk": d}, fmt.Sprintf("paging with limit 500 covered %d of %d stored messages", len(seen), total), "")
			t.Fatalf("paging covered %d", len(seen))
		}
		vkit.Record(t.Name(), map[string]interface{}{"disk": d, "paging": 500}, vkit.OK(true, "big-store-paging"))
	}
	if disk != nil {
		disk.Close()
		disk = nil
	}
}

// ---------------------------------------------------------------------------------------------
// Two nodes: every message is stored only on the node that received the publish; a query on one node surveys the
// other one (the harness plays the cluster surveyor: it hands the request to the peer store's OnSurvey and returns
// its answer). The result must still be the most recent `limit` matching messages of the union.

type peerSurveyor struct{ peer func() storage.Storage }

// junkMode: replies of further cluster members that do not hold a message store (a noop-storage peer answers an
// ssdstore survey with an empty payload) or that are damaged: 0 none, 1 before the real reply, 2 after it, 3 both.
var junkMode int
var junkReplies = [][]byte{{}, {0}, {0xff, 0xff, 0xff}, []byte("not a frame at all")}

type oneShot struct{ resp [][]byte }

func (o oneShot) Gather(time.Duration) [][]byte { return o.resp }

func (p *peerSurveyor) Query(typ string, payload []byte) (message.Awaiter, error) {
	var resp [][]byte
	if junkMode&1 != 0 {
		resp = append(resp, junkReplies[0], junkReplies[2])
	}
	if out, ok := p.peer().OnSurvey(typ, payload); ok {
		resp = append(resp, out)
	}
	if junkMode&2 != 0 {
		resp = append(resp, junkReplies[1], junkReplies[3])
	}
	return oneShot{resp}, nil
}

// NodeMsg: a message stored on node Node at second T (all seconds distinct within a case).
type NodeMsg struct {
	Node   int      `json:"node"`
	Levels []string `json:"levels"`
	T      int      `json:"t"`
}

// TwoNodeCase is a two-node store and queries issued at either node.
type TwoNodeCase struct {
	Msgs []NodeMsg `json:"msgs"`
	Qs   []struct {
		At     int      `json:"at"`
		Filter []string `json:"filter"`
		Limit  int      `json:"limit"`
		Junk   int      `json:"junk,omitempty"`
	} `json:"qs"`
}

func genTwoNode(t *rapid.T) TwoNodeCase {
	var c TwoNodeCase
	n := rapid.IntRange(1, 20).Draw(t, "n")
	perm := rapid.Permutation(func() []int {
		v := make([]int, 40)
		for i := range v {
			v[i] = i
		}
		return v
	}()).Draw(t, "times")
	for i := 0; i < n; i++ {
		m := NodeMsg{Node: rapid.IntRange(0, 1).Draw(t, "node"), T: perm[i]}
		for j, d := 0, rapid.IntRange(1, 3).Draw(t, "depth"); j < d; j++ {
			m.Levels = append(m.Levels, rapid.SampledFrom([]string{"a", "a", "b"}).Draw(t, "lv"))
		}
		c.Msgs = append(c.Msgs, m)
	}
	for i, k := 0, rapid.IntRange(1, 5).Draw(t, "nq"); i < k; i++ {
		q := struct {
			At     int      `json:"at"`
			Filter []string `json:"filter"`
			Limit  int      `json:"limit"`
			Junk   int      `json:"junk,omitempty"`
		}{At: rapid.IntRange(0, 1).Draw(t, "at"), Limit: rapid.SampledFrom([]int{0, 1, 1, 2, 3, 5, 100}).Draw(t, "limit"),
			Junk: rapid.SampledFrom([]int{0, 0, 1, 2, 3}).Draw(t, "junk")}
		q.Filter = []string{rapid.SampledFrom([]string{"a", "a", "b"}).Draw(t, "f0")}
		if rapid.Bool().Draw(t, "deeper") {
			q.Filter = append(q.Filter, rapid.SampledFrom([]string{"a", "b", "+"}).Draw(t, "f1"))
		}
		c.Qs = append(c.Qs, q)
	}
	return c
}

var twoNodes [2]*storage.InMemory

func runTwoNode(c TwoNodeCase) vkit.Result {
	vkit.Quiet()
	if twoNodes[0] == nil {
		for i := range twoNodes {
			i := i
			s := storage.NewInMemory(&peerSurveyor{peer: func() storage.Storage { return twoNodes[1-i] }})
			if err := s.Configure(map[string]interface{}{}); err != nil {
				panic(err)
			}
			twoNodes[i] = s
		}
	}
	caseNo++
	contract := 0x30000000 + caseNo*8
	base := time.Now().Unix() - 1000
	type rec2 struct {
		levels []string
		time   int64
		id     string
		node   int
	}
	var recs []rec2
	for i, m := range c.Msgs {
		msg := message.New(ssid(contract, m.Levels), []byte(strings.Join(m.Levels, "/")+"/"), []byte{byte(i)})
		msg.ID.SetTime(base + int64(m.T))
		msg.TTL = 100000
		recs = append(recs, rec2{m.Levels, base + int64(m.T), string(msg.ID), m.Node})
		if err := twoNodes[m.Node].Store(msg); err != nil {
			return vkit.Failf("store: %v", err)
		}
	}
	nontrivial := false
	for qi, q := range c.Qs {
		var cand []rec2
		for _, r := range recs {
			if len(q.Filter) > len(r.levels) {
				continue
			}
			ok := true
			for i, f := range q.Filter {
				if f != "+" && f != r.levels[i] {
					ok = false
				}
			}
			if ok {
				cand = append(cand, r)
			}
		}
		sort.Slice(cand, func(i, j int) bool { return cand[i].time > cand[j].time })
		exp := cand
		if len(exp) > q.Limit {
			exp = exp[:q.Limit]
		}
		junkMode = q.Junk
		got, err := twoNodes[q.At].Query(ssid(contract, q.Filter), time.Unix(0, 0), time.Unix(0, 0), nil, q.Limit)
		junkMode = 0
		if err != nil {
			return vkit.Failf("query: %v", err)
		}
		for i := range got {
			if i > 0 && got[i-1].Time() > got[i].Time() {
				return vkit.Failf("query %d at node %d (filter %v, limit %d, undecodable replies mode %d): result not ordered by non-decreasing time", qi, q.At, q.Filter, q.Limit, q.Junk)
			}
		}
		want := map[string]rec2{}
		remote := false
		for _, r := range exp {
			want[r.id] = r
			if r.node != q.At {
				remote = true
			}
		}
		if len(got) != len(exp) {
			return vkit.Failf("query %d at node %d (filter %v, limit %d, undecodable replies mode %d): %d messages returned, expected the %d most recent of the %d matching messages stored on both nodes", qi, q.At, q.Filter, q.Limit, q.Junk, len(got), len(exp), len(cand))
		}
		for _, m := range got {
			if _, ok := want[string(m.ID)]; !ok {
				return vkit.Failf("query %d at node %d (filter %v, limit %d): returned the message of second %d on %s, which is not among the %d most recent matching messages of the cluster (seconds %v)",
					qi, q.At, q.Filter, q.Limit, m.Time()-base, m.Channel, len(exp), func() (o []int64) {
						for _, r := range exp {
							o = append(o, r.time-base)
						}
						return
					}())
			}
			delete(want, string(m.ID))
		}
		if remote && len(cand) > len(exp) {
			nontrivial = true
		}
	}
	return vkit.OK(nontrivial, "two-node-survey")
}

func TestQueryTwoNodes(t *testing.T) { vkit.Check(t, genTwoNode, runTwoNode) }
