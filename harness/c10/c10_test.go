//go:build verif

// C10 — Concurrent delivery keeps packet framing and per-publisher order.
// Randomised concurrent stress: publishers send numbered payloads concurrently; subscribers sit behind the real
// write-queueing listener connection (flush rates 1 / 60 / 1000) or a real WebSocket; their byte streams are parsed
// end to end by paho's decoder. Schedules are the Go scheduler's (sampled); failures are reported with the case.
package c10

import (
	"bufio"
	"encoding/binary"
	"fmt"
	"io"
	"math/rand"
	"net"
	"net/http"
	"net/http/httptest"
	"strings"
	"sync"
	"sync/atomic"
	"testing"
	"time"

	"github.com/eclipse/paho.mqtt.golang/packets"
	"github.com/emitter-io/emitter/internal/network/listener"
	"github.com/emitter-io/emitter/internal/security"
	"github.com/emitter-io/emitter/internal/verif/vkit"
	gws "github.com/gorilla/websocket"
)

func TestMain(m *testing.M) { vkit.Main(m) }

// Case describes one concurrent round.
type Case struct {
	Seed      int64  `json:"seed"`
	Pubs      int    `json:"pubs"`
	Subs      int    `json:"subs"`
	Churners  int    `json:"churners"`
	PerPub    int    `json:"perpub"`
	Rate      int    `json:"rate"`      // flush rate of the subscribers' listener connection
	Transport string `json:"transport"` // listener (pipe + write-queueing conn) | websocket (httptest server) | mux-tcp | mux-websocket (the real multiplexing listener on a loopback port)
	Sizes     string `json:"sizes"`     // small | mixed | large
	SlowSub   bool   `json:"slowsub"`   // subscribers read in small sips with pauses (their socket writes block)
	QoS       int    `json:"qos"`
	ReadRate  int    `json:"readrate"`        // broker-side per-connection read rate limit (0 = default 100000/s): publishers get throttled
	Share     int    `json:"share,omitempty"` // members of one share group on the channel: each message goes to exactly one of them
}

var shared *vkit.Broker
var sharedRate int
var key string
var srv *httptest.Server

func broker(readRate int) *vkit.Broker {
	if shared != nil && sharedRate != readRate {
		srv.Close()
		shared.Close()
		shared = nil
	}
	if shared == nil {
		b, err := vkit.NewBroker(vkit.BrokerOpts{ReadRate: readRate})
		if err != nil {
			panic(err)
		}
		shared, sharedRate = b, readRate
		key = b.Key("#/", security.AllowReadWrite)
		srv = httptest.NewServer(b.S.VerifHTTPHandler())
	}
	return shared
}

// muxAddr starts (once per flush rate) the broker's real front door on a loopback port: the multiplexing listener with
// the HTTP matcher (WebSocket upgrades through the broker's own handler) in front of the catch-all MQTT matcher, every
// accepted socket wrapped in the write-queueing connection with the given flush rate - the production wiring.
var muxAddrs = map[int]string{}
var muxBroker *vkit.Broker

func muxAddr(b *vkit.Broker, rate int) string {
	if muxBroker != b {
		muxAddrs, muxBroker = map[int]string{}, b
	}
	if a, ok := muxAddrs[rate]; ok {
		return a
	}
	l, err := listener.New("127.0.0.1:0", listener.Config{FlushRate: rate})
	if err != nil {
		panic(err)
	}
	l.SetReadTimeout(120 * time.Second)
	hs := &http.Server{Handler: b.S.VerifHTTPHandler()}
	l.ServeAsync(listener.MatchHTTP(), hs.Serve)
	l.ServeAsync(listener.MatchAny(), func(sub net.Listener) error {
		for {
			c, err := sub.Accept()
			if err != nil {
				return err
			}
			b.S.VerifAttach(c)
		}
	})
	go l.Serve()
	muxAddrs[rate] = l.Addr().String()
	return muxAddrs[rate]
}

// wsConn adapts a gorilla client connection to an io.ReadWriter byte stream (binary messages).
type wsConn struct {
	c   *gws.Conn
	cur io.Reader
	mu  sync.Mutex
}

func (w *wsConn) Read(p []byte) (int, error) {
	for {
		if w.cur == nil {
			_, r, err := w.c.NextReader()
			if err != nil {
				return 0, err
			}
			w.cur = r
		}
		n, err := w.cur.Read(p)
		if err == io.EOF {
			w.cur = nil
			if n > 0 {
				return n, nil
			}
			continue
		}
		return n, err
	}
}
func (w *wsConn) Write(p []byte) (int, error) {
	w.mu.Lock()
	defer w.mu.Unlock()
	return len(p), w.c.WriteMessage(gws.BinaryMessage, p)
}
func (w *wsConn) Close() error { return w.c.Close() }

type slowReader struct {
	r   io.Reader
	rng *rand.Rand
}

func (s *slowReader) Read(p []byte) (int, error) {
	if len(p) > 700 {
		p = p[:1+s.rng.Intn(700)]
	}
	if s.rng.Intn(40) == 0 {
		time.Sleep(time.Duration(s.rng.Intn(300)) * time.Microsecond)
	}
	return s.r.Read(p)
}

type endpoint struct {
	rw     io.ReadWriteCloser
	rd     *bufio.Reader
	direct int64
}

func dial(b *vkit.Broker, c Case, asSubscriber bool, rng *rand.Rand) (*endpoint, error) {
	var rw io.ReadWriteCloser
	if asSubscriber && (c.Transport == "mux-tcp" || c.Transport == "mux-websocket") {
		addr := muxAddr(b, c.Rate)
		if c.Transport == "mux-websocket" {
			d := gws.Dialer{Subprotocols: []string{"mqtt"}}
			conn, _, err := d.Dial("ws://"+addr+"/", nil)
			if err != nil {
				return nil, err
			}
			rw = &wsConn{c: conn}
		} else {
			conn, err := net.Dial("tcp", addr)
			if err != nil {
				return nil, err
			}
			rw = conn
		}
	} else if asSubscriber && c.Transport == "websocket" {
		d := gws.Dialer{Subprotocols: []string{"mqtt"}}
		conn, _, err := d.Dial("ws"+strings.TrimPrefix(srv.URL, "http"), nil)
		if err != nil {
			return nil, err
		}
		rw = &wsConn{c: conn}
	} else {
		a, srvSide := net.Pipe()
		if asSubscriber {
			b.S.VerifAttach(listener.VerifNewConn(srvSide, c.Rate))
		} else {
			b.S.VerifAttach(srvSide)
		}
		rw = a
	}
	e := &endpoint{rw: rw}
	var r io.Reader = rw
	if asSubscriber && c.SlowSub {
		r = &slowReader{r: rw, rng: rng}
	}
	e.rd = bufio.NewReaderSize(r, 1<<16)
	return e, nil
}

func (e *endpoint) send(p packets.ControlPacket) error {
	var sb strings.Builder
	p.Write(&sb)
	_, err := e.rw.Write([]byte(sb.String()))
	return err
}

func (e *endpoint) expect(typ byte) (packets.ControlPacket, error) {
	cp, err := packets.ReadPacket(e.rd)
	if err != nil {
		return nil, err
	}
	return cp, nil
}

func connectEP(e *endpoint, id string) error {
	c := packets.NewControlPacket(packets.Connect).(*packets.ConnectPacket)
	c.ProtocolName, c.ProtocolVersion, c.ClientIdentifier, c.CleanSession, c.Keepalive = "MQTT", 4, id, true, 60
	if err := e.send(c); err != nil {
		return err
	}
	cp, err := e.expect(packets.Connack)
	if err != nil {
		return err
	}
	if _, ok := cp.(*packets.ConnackPacket); !ok {
		return fmt.Errorf("expected CONNACK, got %T", cp)
	}
	return nil
}

func subscribeEP(e *endpoint, ch string) error {
	p := packets.NewControlPacket(packets.Subscribe).(*packets.SubscribePacket)
	p.MessageID, p.Topics, p.Qoss = 1, []string{key + "/" + ch}, []byte{0}
	return e.send(p)
}

func payloadSize(c Case, rng *rand.Rand) int {
	switch c.Sizes {
	case "small":
		return 8 + rng.Intn(16)
	case "large":
		return 8 + rng.Intn(40000)
	}
	if rng.Intn(20) == 0 {
		return 8 + rng.Intn(40000)
	}
	return 8 + rng.Intn(600)
}

func runCase(c Case) string {
	b := broker(c.ReadRate)
	ch := fmt.Sprintf("c%d/", c.Seed&0xffff)
	total := c.Pubs * c.PerPub
	type subState struct {
		e      *endpoint
		stable bool
		share  bool
		done   chan string
		got    int64
		seen   map[[2]int64]bool // share members: what this member received
	}
	var subs []*subState
	for i := 0; i < c.Subs+c.Churners+c.Share; i++ {
		e, err := dial(b, c, true, rand.New(rand.NewSource(c.Seed+int64(1000+i))))
		if err != nil {
			return "dial: " + err.Error()
		}
		if err := connectEP(e, fmt.Sprintf("sub%d", i)); err != nil {
			return "connect: " + err.Error()
		}
		s := &subState{e: e, stable: i < c.Subs, share: i >= c.Subs+c.Churners, done: make(chan string, 1), seen: map[[2]int64]bool{}}
		subs = append(subs, s)
		if s.stable || s.share {
			filter := ch
			if s.share {
				filter = "$share/g1/" + ch
			}
			if err := subscribeEP(e, filter); err != nil {
				return err.Error()
			}
			if cp, err := e.expect(packets.Suback); err != nil {
				return "suback: " + err.Error()
			} else if _, ok := cp.(*packets.SubackPacket); !ok {
				return fmt.Sprintf("expected SUBACK, got %T", cp)
			}
		}
	}
	var finished int32
	// readers: parse the whole byte stream with the independent decoder
	for si, s := range subs {
		go func(si int, s *subState) {
			next := make([]int64, c.Pubs)
			for i := range next {
				next[i] = -1
			}
			for {
				cp, err := packets.ReadPacket(s.e.rd)
				if err != nil {
					if atomic.LoadInt32(&finished) == 1 {
						s.done <- ""
					} else {
						s.done <- fmt.Sprintf("subscriber %d: byte stream stops being a sequence of well-formed MQTT packets after %d messages: %v", si, atomic.LoadInt64(&s.got), err)
					}
					return
				}
				switch p := cp.(type) {
				case *packets.PublishPacket:
					if p.TopicName != ch || len(p.Payload) < 8 {
						s.done <- fmt.Sprintf("subscriber %d: received a PUBLISH on %q with %d payload bytes", si, p.TopicName, len(p.Payload))
						return
					}
					pub, seq := int(binary.BigEndian.Uint32(p.Payload)), int64(binary.BigEndian.Uint32(p.Payload[4:]))
					if pub >= c.Pubs || len(p.Payload) != int(8+(seq*31+int64(pub)*7)%3)+sizeOf(c, pub, seq) {
						s.done <- fmt.Sprintf("subscriber %d: corrupted payload (publisher field %d, seq %d, %d bytes)", si, pub, seq, len(p.Payload))
						return
					}
					for k := 8; k < len(p.Payload); k++ {
						if p.Payload[k] != byte(seq+int64(k)) {
							s.done <- fmt.Sprintf("subscriber %d: payload of message (%d,%d) corrupted at byte %d", si, pub, seq, k)
							return
						}
					}
					if s.stable && seq != next[pub]+1 {
						s.done <- fmt.Sprintf("subscriber %d (stable): publisher %d: message %d arrived where %d was expected (duplicate, loss or reordering)", si, pub, seq, next[pub]+1)
						return
					}
					if !s.stable && seq <= next[pub] {
						s.done <- fmt.Sprintf("subscriber %d (churning / share member): publisher %d: message %d arrived after %d", si, pub, seq, next[pub])
						return
					}
					next[pub] = seq
					if s.share {
						s.seen[[2]int64{int64(pub), seq}] = true
					}
					if n := atomic.AddInt64(&s.got, 1); s.stable && n == int64(total) {
						s.done <- ""
						return
					}
				case *packets.SubackPacket, *packets.UnsubackPacket, *packets.PingrespPacket:
				default:
					s.done <- fmt.Sprintf("subscriber %d: unexpected packet %T in the stream", si, cp)
					return
				}
			}
		}(si, s)
	}
	// churners subscribe / unsubscribe while traffic flows
	stopChurn := make(chan struct{})
	var churnWG sync.WaitGroup
	for _, s := range subs {
		if s.stable || s.share {
			continue
		}
		churnWG.Add(1)
		go func(s *subState) {
			defer churnWG.Done()
			for i := 0; ; i++ {
				select {
				case <-stopChurn:
					return
				default:
				}
				if i%2 == 0 {
					subscribeEP(s.e, ch)
				} else {
					p := packets.NewControlPacket(packets.Unsubscribe).(*packets.UnsubscribePacket)
					p.MessageID, p.Topics = 2, []string{key + "/" + ch}
					s.e.send(p)
				}
				time.Sleep(time.Duration(200+i%7*100) * time.Microsecond)
			}
		}(s)
	}
	// publishers
	var wg sync.WaitGroup
	perr := make(chan string, c.Pubs)
	for p := 0; p < c.Pubs; p++ {
		wg.Add(1)
		go func(p int) {
			defer wg.Done()
			e, err := dial(b, c, false, nil)
			if err != nil {
				perr <- err.Error()
				return
			}
			defer e.rw.Close()
			if err := connectEP(e, fmt.Sprintf("pub%d", p)); err != nil {
				perr <- "publisher connect: " + err.Error()
				return
			}
			go io.Copy(io.Discard, e.rd)
			for i := 0; i < c.PerPub; i++ {
				n := int(8+(int64(i)*31+int64(p)*7)%3) + sizeOf(c, p, int64(i))
				pl := make([]byte, n)
				binary.BigEndian.PutUint32(pl, uint32(p))
				binary.BigEndian.PutUint32(pl[4:], uint32(i))
				for k := 8; k < n; k++ {
					pl[k] = byte(int64(i) + int64(k))
				}
				pk := packets.NewControlPacket(packets.Publish).(*packets.PublishPacket)
				pk.Qos, pk.MessageID, pk.TopicName, pk.Payload = byte(c.QoS), uint16(i%65000+1), key+"/"+ch, pl
				if err := e.send(pk); err != nil {
					perr <- "publish: " + err.Error()
					return
				}
			}
			// PINGREQ as the last packet: when the broker has read it, it has processed every publish before it
			e.send(packets.NewControlPacket(packets.Pingreq))
			time.Sleep(5 * time.Millisecond)
		}(p)
	}
	wg.Wait()
	select {
	case m := <-perr:
		return m
	default:
	}
	msg := ""
	for si, s := range subs {
		if !s.stable {
			continue
		}
		select {
		case m := <-s.done:
			if m != "" && msg == "" {
				msg = m
			}
		case <-time.After(vkit.WaitCeiling):
			if msg == "" {
				msg = fmt.Sprintf("subscriber %d (stable) received %d of %d messages within the wait ceiling after the publishers finished", si, atomic.LoadInt64(&s.got), total)
			}
		}
	}
	if c.Share > 0 && msg == "" {
		// every message went to exactly one member of the share group: together they hold each (publisher, seq) once
		deadline := time.Now().Add(vkit.WaitCeiling)
		for {
			var sum int64
			for _, s := range subs {
				if s.share {
					sum += atomic.LoadInt64(&s.got)
				}
			}
			if sum >= int64(total) || time.Now().After(deadline) {
				if sum != int64(total) {
					msg = fmt.Sprintf("the %d members of share group g1 received %d messages together, %d were published (each goes to exactly one member)", c.Share, sum, total)
				}
				break
			}
			time.Sleep(2 * time.Millisecond)
		}
	}
	close(stopChurn)
	churnWG.Wait()
	atomic.StoreInt32(&finished, 1)
	for _, s := range subs {
		s.e.rw.Close()
	}
	for _, s := range subs {
		if s.stable {
			continue
		}
		select {
		case m := <-s.done:
			if m != "" && msg == "" {
				msg = m
			}
		case <-time.After(vkit.WaitCeiling):
		}
	}
	if c.Share > 0 && msg == "" {
		union := map[[2]int64]int{}
		for _, s := range subs {
			if s.share {
				for k := range s.seen {
					union[k]++
				}
			}
		}
		for k, n := range union {
			if n != 1 {
				return fmt.Sprintf("message (%d,%d) was delivered to %d members of share group g1", k[0], k[1], n)
			}
		}
		if len(union) != total {
			return fmt.Sprintf("share group g1 received %d distinct messages, %d were published", len(union), total)
		}
	}
	return msg
}

// sizeOf derives the payload size of message (pub, seq) deterministically, so that the reader can verify it.
func sizeOf(c Case, pub int, seq int64) int {
	x := uint64(c.Seed) ^ uint64(pub)*0x9E3779B97F4A7C15 ^ uint64(seq)*0xBF58476D1CE4E5B9
	x ^= x >> 29
	x *= 0x94D049BB133111EB
	x ^= x >> 32
	switch c.Sizes {
	case "small":
		return int(x % 16)
	case "large":
		return int(x % 40000)
	}
	if x%20 == 0 {
		return int((x >> 8) % 40000)
	}
	return int((x >> 8) % 600)
}

func TestConcurrentDelivery(t *testing.T) {
	rounds := vkit.N(10)
	rng := rand.New(rand.NewSource(vkit.Seed()))
	for r := 0; r < rounds; r++ {
		c := Case{Seed: rng.Int63(), Pubs: 2 + rng.Intn(5), Subs: 1 + rng.Intn(3), Churners: rng.Intn(3), PerPub: 300 + rng.Intn(900),
			Rate: []int{1, 1, 60, 1000}[rng.Intn(4)], Transport: []string{"listener", "listener", "websocket", "mux-tcp", "mux-websocket", "mux-websocket"}[rng.Intn(6)],
			Sizes: []string{"small", "mixed", "mixed", "large"}[rng.Intn(4)], SlowSub: rng.Intn(2) == 0, QoS: rng.Intn(2)}
		if c.Sizes == "large" {
			c.PerPub = 100 + rng.Intn(200)
		}
		if r%2 == 1 {
			c.Share = 2 + rng.Intn(2)
		}
		if r%6 == 5 { // one round in six with the broker's read-rate limiter engaged
			c.ReadRate = 60
			c.PerPub = 120 + rng.Intn(100)
		}
		if msg := runCase(c); msg != "" {
			vkit.ReportFailure(t.Name(), c, msg, "")
			t.Fatalf("%s (case %+v)", msg, c)
		}
		labels := []string{"transport-" + c.Transport, fmt.Sprintf("rate-%d", c.Rate)}
		if c.SlowSub {
			labels = append(labels, "slow-subscriber")
		}
		if c.ReadRate > 0 {
			labels = append(labels, "read-rate-limited")
		}
		if c.Share > 0 {
			labels = append(labels, "share-group")
		}
		vkit.Record(t.Name(), c, vkit.Result{NonTrivial: c.Pubs >= 2, Labels: labels})
	}
}
