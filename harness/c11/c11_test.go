//go:build verif

// C11 — Derived keys never exceed their parent or the request.
package c11

import (
	"encoding/json"
	"fmt"
	"github.com/emitter-io/emitter/internal/message"
	"net/http/httptest"
	"net/url"
	"regexp"
	"strings"
	"testing"
	"time"

	"github.com/emitter-io/emitter/internal/provider/contract"
	"github.com/emitter-io/emitter/internal/provider/usage"
	"github.com/emitter-io/emitter/internal/security"
	"github.com/emitter-io/emitter/internal/security/hash"
	"github.com/emitter-io/emitter/internal/security/license"
	"github.com/emitter-io/emitter/internal/verif/vkit"
	"pgregory.net/rapid"
)

func TestMain(m *testing.M) { vkit.Main(m) }

// Case is one key-generation request.
type Case struct {
	Lic        int    `json:"lic"`
	Via        string `json:"via"`    // mqtt: emitter/keygen/ request through a connection; http: the /keygen form; api: CreateKey/ExtendKey with a raw access byte
	Access     uint8  `json:"access"` // via=api only
	Parent     string `json:"parent"` // master master-expired master-foreign-cipher master-unknown-contract master-badsig ordinary extendable extendable-expired garbage
	ParentPerm uint8  `json:"parentperm"`
	ParentTgt  string `json:"parenttgt"`
	Type       string `json:"type"`
	TTL        int64  `json:"ttl"`
	Channel    string `json:"channel"`
	Omit       string `json:"omit,omitempty"` // via=mqtt: member left out of the request document: "type" (no permission asked), "ttl" (no expiry asked), "both"
}

var parents = []string{"master", "master", "master", "extendable", "extendable", "master-expired", "master-foreign-cipher", "master-unknown-contract", "master-badsig", "ordinary", "extendable-expired", "garbage"}
var channels = []string{"a/", "a/b/", "a/#/", "+/b/", "a/b/c/", "+/", "a/+/", "#/", "a/b/#/", "b/", "x/y/z/",
	"a", "a/b", "", "a//", "a/ b/", "a#/", "a/b#/", "#a/", "a/#b/", "+a/", strings.Repeat("l/", 23), strings.Repeat("l/", 24), strings.Repeat("l/", 23) + "#/"}
var ttls = []int64{0, 0, 1, 60, 3600, 86400, 10000000, -1, -3600, -10000000, 2147483647, -2147483648, -600000000, -500000000}

func genCase(t *rapid.T) Case {
	c := Case{Lic: rapid.IntRange(1, 3).Draw(t, "lic"), Via: rapid.SampledFrom([]string{"mqtt", "mqtt", "mqtt", "http", "api"}).Draw(t, "via"), Access: uint8(rapid.IntRange(0, 255).Draw(t, "access")),
		Parent: rapid.SampledFrom(parents).Draw(t, "parent"), ParentPerm: uint8(rapid.IntRange(0, 255).Draw(t, "pp")),
		ParentTgt: rapid.SampledFrom([]string{"a/", "a/", "a/b/", "a/#/", "#/"}).Draw(t, "ptgt"),
		Type:      rapid.StringMatching(`[rwslpexqRW1 ]{0,8}`).Draw(t, "type"), TTL: rapid.SampledFrom(ttls).Draw(t, "ttl"),
		Channel: rapid.SampledFrom(channels).Draw(t, "channel"), Omit: rapid.SampledFrom([]string{"", "", "", "", "type", "ttl", "both"}).Draw(t, "omit")}
	if rapid.IntRange(0, 5).Draw(t, "unicode") == 0 {
		// letters of other scripts and symbols whose code points end in the byte of a permission letter (U+0172 ~ 'r', U+0177 ~ 'w',
		// U+0173 ~ 's', U+016C ~ 'l', U+0170 ~ 'p', U+0165 ~ 'e', U+1F972 ~ 'r'): they are not permission letters
		c.Type += rapid.SampledFrom([]string{"\u0172", "\u0177", "\u0173\u016c", "\u0170\u0165", "\U0001F972", "\u4e72", "\u00f2"}).Draw(t, "uni")
	}
	if strings.HasPrefix(c.Parent, "extendable") && rapid.IntRange(0, 3).Draw(t, "under") > 0 {
		// mostly ask for the channel the parent is issued for
		c.Channel = c.ParentTgt
		if c.ParentTgt == "#/" {
			c.Channel = rapid.SampledFrom([]string{"a/", "a/b/", "a/#/"}).Draw(t, "chany")
		}
	}
	return c
}

type env struct {
	b       *vkit.Broker
	foreign license.Cipher  // cipher of an unrelated license
	unknown license.License // same cipher, contract nobody knows
	cl      *vkit.Client
	connID  string
}

var envs = map[int]*env{}

func getEnv(v int) *env {
	if e, ok := envs[v]; ok {
		return e
	}
	b, err := vkit.NewBroker(vkit.BrokerOpts{LicVersion: v, Node: fmt.Sprintf("00:00:00:00:01:0%d", v), Storage: "inmemory"})
	if err != nil {
		panic(err)
	}
	e := &env{b: b}
	e.foreign, _ = vkit.DetLicense(v, "another-license").Cipher()
	switch x := b.Lic.(type) {
	case *license.V1:
		e.unknown = &license.V1{EncryptionKey: x.EncryptionKey, User: x.User + 2, Sign: x.Sign + 9, Expires: x.Expires, Type: x.Type}
	case *license.V2:
		e.unknown = &license.V2{EncryptionKey: x.EncryptionKey, EncryptionSalt: x.EncryptionSalt, User: x.User + 2, Sign: x.Sign + 9, Index: x.Index}
	case *license.V3:
		e.unknown = &license.V3{EncryptionKey: x.EncryptionKey, EncryptionSalt: x.EncryptionSalt, User: x.User + 2, Sign: x.Sign + 9, Index: x.Index}
	}
	_ = contract.ContractStateAllowed
	_ = usage.NewNoop
	e.cl = b.Attach("keygen-client")
	if err := e.cl.Connect("kg", "", nil); err != nil {
		panic(err)
	}
	pubs, err := e.cl.Request(1, "me", map[string]string{})
	if err != nil || len(pubs) != 1 {
		panic(fmt.Sprintf("me request: %v %d", err, len(pubs)))
	}
	var me struct {
		ID string `json:"id"`
	}
	json.Unmarshal(pubs[0].Payload, &me)
	if me.ID == "" {
		panic("no connection id")
	}
	e.connID = me.ID
	envs[v] = e
	return e
}

// access is the reference reading of the permission string.
func access(typ string) uint8 {
	var a uint8
	for _, c := range typ {
		switch c {
		case 'r':
			a |= security.AllowRead
		case 'w':
			a |= security.AllowWrite
		case 's':
			a |= security.AllowStore
		case 'l':
			a |= security.AllowLoad
		case 'p':
			a |= security.AllowPresence
		case 'e':
			a |= security.AllowExtend
		case 'x':
			a |= security.AllowExecute
		}
	}
	return a
}

// targetBytes recomputes, independently of Key.SetTarget, what bytes 12..14 (bit path) and 16..19 (hash) of a key
// issued for exactly this channel must be: bit 23 = exact target, bit 22-i = level i is a literal.
func targetBytes(channel string) (path uint32, h uint32) {
	lv := vkit.Levels(channel)
	exact := true
	if len(lv) > 0 && lv[len(lv)-1] == "#" {
		exact = false
		lv = lv[:len(lv)-1]
	}
	if exact {
		path |= 1 << 23
	}
	for i, l := range lv {
		if l != "+" {
			path |= 1 << uint(22-i)
		}
	}
	return path, hash.OfString(strings.Join(lv, "/"))
}

var validTarget = regexp.MustCompile(`^([a-z+]+/)*(#/)?$`)

const ttlFinding = "C11-ttl-underflow"

func run(c Case) vkit.Result {
	e := getEnv(c.Lic)
	lic := e.b.Lic
	mk := func(l license.License, perm uint8, target string, exp time.Time) security.Key {
		k := security.Key(make([]byte, 24))
		k.SetSalt(99)
		k.SetMaster(uint16(l.Master()))
		k.SetContract(l.Contract())
		k.SetSignature(l.Signature())
		k.SetPermissions(perm)
		if target != "" {
			k.SetTarget(target)
		}
		k.SetExpires(exp)
		return k
	}
	never := time.Unix(0, 0)
	var parent security.Key
	var parentStr string
	switch c.Parent {
	case "master":
		parent = mk(lic, security.AllowMaster, "", never)
	case "master-expired":
		parent = mk(lic, security.AllowMaster, "", time.Now().Add(-time.Hour))
	case "master-foreign-cipher":
		parent = mk(lic, security.AllowMaster, "", never)
		parentStr, _ = e.foreign.EncryptKey(parent)
	case "master-unknown-contract":
		parent = mk(e.unknown, security.AllowMaster, "", never)
	case "master-badsig":
		parent = mk(lic, security.AllowMaster, "", never)
		parent.SetSignature(lic.Signature() + 1)
	case "ordinary":
		parent = mk(lic, c.ParentPerm&^(security.AllowMaster|security.AllowExtend), c.ParentTgt, never)
		if parent.Permissions() == 0 {
			parent.SetPermissions(security.AllowRead)
		}
	case "extendable":
		parent = mk(lic, (c.ParentPerm|security.AllowExtend)&^security.AllowMaster, c.ParentTgt, never)
	case "extendable-expired":
		parent = mk(lic, (c.ParentPerm|security.AllowExtend)&^security.AllowMaster, c.ParentTgt, time.Now().Add(-time.Hour))
	case "garbage":
		parentStr = strings.Repeat("x", 32)
		parent = mk(lic, 0, "", never)
	}
	if parentStr == "" {
		parentStr = e.b.Encrypt(parent)
	}
	via := c.Via
	if via == "http" && strings.HasPrefix(c.Parent, "extendable") {
		via = "mqtt" // the form only mints from master keys
	}
	requested := access(c.Type)
	t0 := time.Now()
	var status int
	var outKey, outChannel string
	if via == "mqtt" {
		ttl := c.TTL
		if ttl > 2147483647 || ttl < -2147483648 {
			ttl = 0
		}
		doc := map[string]interface{}{"key": parentStr, "channel": c.Channel, "type": c.Type, "ttl": ttl}
		if c.Omit == "type" || c.Omit == "both" {
			delete(doc, "type")
			requested = 0
		}
		if c.Omit == "ttl" || c.Omit == "both" {
			delete(doc, "ttl")
			c.TTL = 0
		}
		pubs, err := e.cl.Request(7, "keygen", doc)
		if err != nil || len(pubs) != 1 {
			return vkit.Failf("keygen request: %v, %d replies", err, len(pubs))
		}
		var resp struct {
			Status  int    `json:"status"`
			Key     string `json:"key"`
			Channel string `json:"channel"`
			Req     int    `json:"req"`
		}
		if err := json.Unmarshal(pubs[0].Payload, &resp); err != nil {
			return vkit.Failf("keygen response does not parse: %q", pubs[0].Payload)
		}
		status, outKey, outChannel = resp.Status, resp.Key, resp.Channel
	} else if via == "api" {
		requested = c.Access
		exp := time.Unix(0, 0)
		if c.TTL != 0 {
			exp = time.Now().Add(time.Duration(c.TTL) * time.Second).UTC()
		}
		status = 400
		if canExt := strings.HasPrefix(c.Parent, "extendable"); canExt {
			if ch, err := e.b.S.VerifKeygen().ExtendKey(parentStr, c.Channel, e.connID, c.Access, exp); err == nil {
				status, outKey, outChannel = 200, string(ch.Key), string(ch.Channel)
			}
		} else if k, err := e.b.S.VerifKeygen().CreateKey(parentStr, c.Channel, c.Access, exp); err == nil {
			status, outKey, outChannel = 200, k, c.Channel
		}
	} else {
		form := url.Values{"key": {parentStr}, "channel": {c.Channel}, "ttl": {fmt.Sprint(c.TTL)}}
		requested = 0
		for _, f := range []struct {
			ch   byte
			name string
			bit  uint8
		}{{'r', "sub", security.AllowRead}, {'w', "pub", security.AllowWrite}, {'s', "store", security.AllowStore}, {'l', "load", security.AllowLoad},
			{'p', "presence", security.AllowPresence}, {'e', "extend", security.AllowExtend}} {
			if strings.IndexByte(c.Type, f.ch) >= 0 {
				form.Set(f.name, "on")
				requested |= f.bit
			}
		}
		req := httptest.NewRequest("POST", "/keygen", strings.NewReader(form.Encode()))
		req.Header.Set("Content-Type", "application/x-www-form-urlencoded")
		rec := httptest.NewRecorder()
		e.b.S.VerifHTTPHandler().ServeHTTP(rec, req)
		body := rec.Body.String()
		status = 400
		if m := regexp.MustCompile(`key\s*:\s*([A-Za-z0-9_-]{32})`).FindStringSubmatch(body); m != nil {
			status, outKey, outChannel = 200, m[1], c.Channel
		}
	}
	t1 := time.Now()
	labels := []string{"via-" + via, "parent-" + c.Parent}
	canMint := c.Parent == "master"
	canExtend := c.Parent == "extendable"
	if status != 200 {
		// a refusal is always acceptable for the statement except that it must not be because of a valid request... the
		// statement bounds what is issued, it does not promise issuance; only classify
		return vkit.Result{NonTrivial: !canMint && !canExtend && validTarget.MatchString(c.Channel), Labels: append(labels, "refused")}
	}
	// ---- a key was issued
	if !canMint && !canExtend {
		return vkit.Failf("a key was issued although the parent is %q (only a valid, unexpired master key of an allowed contract - or an extendable key - may derive keys): %+v", c.Parent, c)
	}
	k, err := e.b.S.VerifKeygen().DecryptKey(outKey)
	if err != nil || len(k) != 24 {
		return vkit.Failf("issued key %q does not decrypt: %v", outKey, err)
	}
	if k.HasPermission(security.AllowMaster) {
		return vkit.Failf("issued key has the master permission (perms %08b): %+v", k.Permissions(), c)
	}
	allowedPerms := requested
	if canExtend {
		allowedPerms = requested & parent.Permissions() &^ security.AllowExtend
	}
	if extra := k.Permissions() &^ allowedPerms; extra != 0 {
		return vkit.Failf("issued key has permissions %08b, requested %08b, parent %08b: bits %08b were not requested%s", k.Permissions(), requested, parent.Permissions(), extra,
			map[bool]string{true: " or not held by the parent", false: ""}[canExtend])
	}
	if k.Contract() != parent.Contract() || k.Signature() != parent.Signature() || k.Master() != parent.Master() {
		return vkit.Failf("issued key has contract/signature/master %d/%d/%d, parent %d/%d/%d", k.Contract(), k.Signature(), k.Master(), parent.Contract(), parent.Signature(), parent.Master())
	}
	// target
	wantChannel := c.Channel
	if canExtend {
		if strings.HasSuffix(c.Channel, "#/") {
			wantChannel = strings.TrimSuffix(c.Channel, "#/") + e.connID + "/#/"
		} else {
			wantChannel = c.Channel + e.connID + "/"
		}
		if outChannel != wantChannel {
			return vkit.Failf("extension of %q by connection %s returned channel %q, expected %q", c.Channel, e.connID, outChannel, wantChannel)
		}
	}
	if !strings.HasSuffix(c.Channel, "/") || len(vkit.Levels(strings.TrimSuffix(c.Channel, "#/"))) > 23 {
		return vkit.Failf("a key was issued for the malformed channel %q", c.Channel)
	}
	if !validTarget.MatchString(c.Channel) {
		// channels with empty levels or characters outside the channel alphabet are not channels any request can name;
		// the statement's "targets exactly the requested channel" has no meaning for them (counted, not asserted)
		// ... but it must still not be MORE powerful than what was asked for: of a few ordinary channels it may authorize at
		// most the one the request degenerates to when empty levels are dropped (a// -> a/)
		var lv []string
		for _, l := range strings.Split(c.Channel, "/") {
			if l != "" {
				lv = append(lv, l)
			}
		}
		norm := strings.Join(lv, "/") + "/"
		if !k.IsExpired() && k.Permissions() != 0 {
			need := k.Permissions() & -k.Permissions()
			for _, probe := range []string{"a/", "b/", "zz/", "a/b/", "c/d/"} {
				if _, _, ok := e.b.S.Authorize(security.ParseChannel([]byte(outKey+"/"+probe)), need); ok && probe != norm {
					return vkit.Failf("a key requested for the odd channel %q authorizes %q", c.Channel, probe)
				}
			}
		}
		return vkit.Result{Excluded: true, Labels: append(labels, "issued-for-malformed-channel")}
	}
	path, h := targetBytes(wantChannel)
	gotPath := uint32(k[12])<<16 | uint32(k[13])<<8 | uint32(k[14])
	gotHash := uint32(k[16])<<24 | uint32(k[17])<<16 | uint32(k[18])<<8 | uint32(k[19])
	if gotPath != path || gotHash != h {
		return vkit.Failf("issued key targets (path %06x, hash %08x), a key for exactly %q has (path %06x, hash %08x)", gotPath, gotHash, wantChannel, path, h)
	}
	// expiry
	if c.TTL == 0 {
		if !k.Expires().Equal(time.Unix(0, 0)) {
			return vkit.Failf("ttl 0 requested but the key expires at %v", k.Expires())
		}
	} else {
		lo, hi := t0.Unix()+c.TTL-2, t1.Unix()+c.TTL+2
		const epoch = 1262304000 // the key format counts seconds since 2010-01-01 in 32 bits
		if hi < epoch+2 {
			// a requested expiry before the format's epoch is not representable: the key must simply be expired already,
			// with the earliest representable expiry
			lo, hi = epoch, epoch+1
		}
		if x := k.Expires().Unix(); x < lo || x > hi {
			r := vkit.Failf("ttl %d requested at %d: key expires at %d (%v), expected within [%d,%d]", c.TTL, t0.Unix(), x, k.Expires(), lo, hi)
			if t0.Unix()+c.TTL < 1262304000+2 { // requested expiry before the key epoch (2010-01-01): 32-bit field underflows
				r.Finding = ttlFinding
			}
			return r
		}
	}
	// behaviour: the issued key authorizes the intended channel and neither its parent level nor a sibling
	farFuture := c.TTL == 0 || c.TTL >= 3600 // a key about to expire may expire between the two calls below
	if farFuture && !k.IsExpired() && k.Permissions() != 0 && !strings.Contains(wantChannel, "+") {
		need := k.Permissions() & -k.Permissions() // lowest permission bit
		lv := vkit.Levels(strings.TrimSuffix(wantChannel, "#/"))
		probe := func(ch string) bool {
			_, _, ok := e.b.S.Authorize(security.ParseChannel([]byte(outKey+"/"+ch)), need)
			return ok
		}
		if len(lv) > 0 {
			intended := strings.Join(lv, "/") + "/"
			if strings.HasSuffix(wantChannel, "#/") {
				intended += "sub/"
			}
			if !probe(intended) {
				return vkit.Failf("issued key for %q does not authorize %q", wantChannel, intended)
			}
			sibling := strings.Join(append(append([]string{}, lv[:len(lv)-1]...), "zz"), "/") + "/"
			if probe(sibling) {
				return vkit.Failf("issued key for %q also authorizes the sibling %q", wantChannel, sibling)
			}
			if len(lv) > 1 {
				if par := strings.Join(lv[:len(lv)-1], "/") + "/"; probe(par) {
					return vkit.Failf("issued key for %q also authorizes its parent %q", wantChannel, par)
				}
			}
		}
		labels = append(labels, "behaviour-probed")
	}
	nontrivial := requested&^parent.Permissions() != 0 || canMint
	if canExtend {
		labels = append(labels, "issued-by-extension")
	}
	return vkit.Result{NonTrivial: nontrivial, Labels: append(labels, "issued")}
}

func TestKeygen(t *testing.T) { vkit.Check(t, genCase, run) }

// TestExtendableUnusable: an extendable key cannot itself be used to publish or subscribe (every mask with the extend bit).
func TestExtendableUnusable(t *testing.T) {
	for v := 1; v <= 3; v++ {
		e := getEnv(v)
		for mask := 0; mask < 128; mask++ {
			p := (uint8(mask<<1) | security.AllowExtend) &^ security.AllowExecute
			enc := e.b.Encrypt(e.b.RawKey("a/", p, time.Unix(0, 0), uint16(mask)))
			c := map[string]interface{}{"license": v, "perm": p}
			codes, _, err := e.cl.Subscribe(3, enc+"/a/")
			if err != nil {
				t.Fatal(err)
			}
			if codes[0] != 0x80 {
				vkit.ReportFailure(t.Name(), c, fmt.Sprintf("an extendable key (perms %08b) was accepted for SUBSCRIBE", p), "")
				t.Fatalf("extendable key subscribes")
			}
			pubs, err := e.cl.Publish(4, enc+"/a/", []byte("x"), false)
			if err != nil {
				t.Fatal(err)
			}
			refused := false
			for _, pb := range pubs {
				if st, _, ok := vkit.IsErrorReply(pb); ok && st == 401 {
					refused = true
				}
			}
			if !refused {
				vkit.ReportFailure(t.Name(), c, fmt.Sprintf("an extendable key (perms %08b) was accepted for PUBLISH", p), "")
				t.Fatalf("extendable key publishes")
			}
			// ... and a refused publish leaves nothing in the message history either (ttl option and retain flag)
			if p&security.AllowWrite != 0 {
				payload := fmt.Sprintf("ext-%d-%d", v, mask)
				if _, err := e.cl.Publish(8, enc+"/a/?ttl=3600", []byte(payload), true); err != nil {
					t.Fatal(err)
				}
				ch := security.ParseChannel([]byte("k/a/"))
				msgs, err := e.b.S.VerifStorage().Query(message.NewSsid(e.b.Lic.Contract(), ch.Query), time.Unix(0, 0), time.Unix(0, 0), nil, 100000)
				if err != nil {
					t.Fatal(err)
				}
				for _, m := range msgs {
					if string(m.Payload) == payload {
						vkit.ReportFailure(t.Name(), c, fmt.Sprintf("a PUBLISH with an extendable key (perms %08b, ttl option and retain flag) was refused but its message is in the history of a/: later subscribers are replayed it", p), "")
						t.Fatalf("extendable key publishes into history")
					}
				}
			}
			// ... nor through a link shortcut: neither by the auto-subscribe of the link request nor by publishing through the shortcut
			if p&security.AllowRead != 0 && mask%8 == 1 {
				ch := fmt.Sprintf("a/lk%d/", mask)
				encL := e.b.Encrypt(e.b.RawKey(ch, p, time.Unix(0, 0), uint16(mask)))
				if _, err := e.cl.Request(5, "link", map[string]interface{}{"name": "lx", "key": encL, "channel": ch, "subscribe": true}); err != nil {
					t.Fatal(err)
				}
				full := e.b.Key(ch, security.AllowReadWrite)
				pubs, err := e.cl.Publish(6, full+"/"+ch, []byte("to-the-link"), false)
				if err != nil {
					t.Fatal(err)
				}
				for _, pb := range pubs {
					if pb.TopicName == ch {
						vkit.ReportFailure(t.Name(), c, fmt.Sprintf("a link request with auto-subscribe and an extendable key (perms %08b) subscribed the connection to %s: it receives what is published there", p, ch), "")
						t.Fatalf("extendable key subscribes through a link")
					}
				}
				if p&security.AllowWrite != 0 {
					pubs, err = e.cl.Publish(7, "lx", []byte("via-shortcut"), false)
					if err != nil {
						t.Fatal(err)
					}
					refused := false
					for _, pb := range pubs {
						if st, _, ok := vkit.IsErrorReply(pb); ok && st == 401 {
							refused = true
						}
					}
					if !refused {
						vkit.ReportFailure(t.Name(), c, fmt.Sprintf("a publish through a link shortcut made with an extendable key (perms %08b) was accepted", p), "")
						t.Fatalf("extendable key publishes through a link")
					}
				}
				vkit.Record(t.Name(), map[string]interface{}{"license": v, "perm": p, "via": "link"}, vkit.OK(true, "extendable-unusable-through-link"))
			}
			vkit.Record(t.Name(), c, vkit.OK(true, "extendable-unusable"))
		}
	}
}

// TestProbeTTLUnderflow replays the minimal reproduction of the listed finding.
func TestProbeTTLUnderflow(t *testing.T) {
	r := run(Case{Lic: 1, Via: "mqtt", Parent: "master", Type: "r", TTL: -600000000, Channel: "a/"})
	vkit.Probe(ttlFinding, r.Fail != "" && r.Finding == ttlFinding, r.Fail)
	if r.Fail != "" && r.Finding != ttlFinding {
		vkit.ReportFailure(t.Name(), "ttl=-600000000", r.Fail, "")
		t.Fatal(r.Fail)
	}
}
