//go:build verif

package c11

// Histories on one broker: keys are minted, extended by several connections, used and probed in any order. What a
// key grants is a function of the key alone: no earlier request - in particular no extension of it - may change what
// the parent key, its other children or unrelated keys grant afterwards, an extendable key stays unusable for
// publish / subscribe, and every child is confined to the requesting connection's sub-channel.

import (
	"encoding/json"
	"fmt"
	"sort"
	"strings"
	"sync"
	"testing"
	"time"

	"github.com/emitter-io/emitter/internal/security"
	"github.com/emitter-io/emitter/internal/verif/vkit"
	"pgregory.net/rapid"
)

// HKey is an initial key of the pool.
type HKey struct {
	Target string `json:"target"`
	Perm   uint8  `json:"perm"`
}

// HOp is one step. K: extend (keygen request with pool key Key from connection C), mint (keygen with the master key),
// sub / pub (use pool key Key on channel Ch from connection C), probe (Authorize directly), bad (a damaged spelling
// of the key is presented twice).
type HOp struct {
	K    string `json:"k"`
	C    int    `json:"c"`
	Key  int    `json:"key"`
	Ch   string `json:"ch"`
	Type string `json:"type,omitempty"`
	Bit  uint8  `json:"bit,omitempty"`
	Pos  int    `json:"pos,omitempty"`
}

// HCase is a history.
type HCase struct {
	Lic  int    `json:"lic"`
	Keys []HKey `json:"keys"`
	Ops  []HOp  `json:"ops"`
}

var hTargets = []string{"a/", "a/", "a/b/", "a/#/", "#/"}
var hChannels = []string{"a/", "a/b/", "a/b/c/", "b/", "a/x/"}

func genHCase(t *rapid.T) HCase {
	c := HCase{Lic: rapid.IntRange(1, 3).Draw(t, "lic")}
	for i, n := 0, rapid.IntRange(2, 4).Draw(t, "nkeys"); i < n; i++ {
		p := uint8(rapid.IntRange(0, 127).Draw(t, "perm")<<1) &^ security.AllowExecute
		if i < 2 || rapid.Bool().Draw(t, "ext") {
			p |= security.AllowExtend | security.AllowRead
		}
		c.Keys = append(c.Keys, HKey{Target: rapid.SampledFrom(hTargets).Draw(t, "target"), Perm: p})
	}
	for i, n := 0, rapid.IntRange(2, 25).Draw(t, "nops"); i < n; i++ {
		op := HOp{C: rapid.IntRange(0, 2).Draw(t, "c"), Key: rapid.IntRange(0, 12).Draw(t, "key"), Ch: rapid.SampledFrom(hChannels).Draw(t, "ch")}
		switch k := rapid.IntRange(0, 11).Draw(t, "kind"); {
		case k < 4:
			op.K = "extend"
			op.Type = rapid.SampledFrom([]string{"rw", "r", "rwslp", "w", "rwe", ""}).Draw(t, "type")
		case k < 5:
			op.K = "mint"
			op.Type = rapid.SampledFrom([]string{"rw", "rwe", "re", "rl"}).Draw(t, "type")
			op.Ch = rapid.SampledFrom(hTargets).Draw(t, "mch")
		case k < 7:
			op.K = "sub"
		case k < 9:
			op.K = "pub"
		case k < 11:
			op.K = "probe"
			op.Bit = []uint8{security.AllowRead, security.AllowWrite, security.AllowStore, security.AllowLoad, security.AllowPresence, security.AllowExtend}[rapid.IntRange(0, 5).Draw(t, "bit")]
		default:
			op.K = "bad"
			op.Pos = rapid.IntRange(0, 31).Draw(t, "pos")
		}
		c.Ops = append(c.Ops, op)
	}
	return c
}

func hCovers(target, ch string) bool {
	tl, cl := vkit.Levels(target), vkit.Levels(ch)
	multi := len(tl) > 0 && tl[len(tl)-1] == "#"
	if multi {
		tl = tl[:len(tl)-1]
	}
	if multi && len(cl) < len(tl) || !multi && len(cl) != len(tl) {
		return false
	}
	for i := range tl {
		if tl[i] != cl[i] {
			return false
		}
	}
	return true
}

type hconn struct {
	cl *vkit.Client
	id string
}

var hconns = map[int][]*hconn{}

func getConns(e *env, v int) []*hconn {
	if c, ok := hconns[v]; ok {
		return c
	}
	var out []*hconn
	for i := 0; i < 3; i++ {
		cl := e.b.Attach(fmt.Sprintf("hist-%d", i))
		if err := cl.Connect(fmt.Sprintf("hist-%d", i), "", nil); err != nil {
			panic(err)
		}
		pubs, err := cl.Request(1, "me", map[string]string{})
		if err != nil || len(pubs) != 1 {
			panic("me request")
		}
		var me struct {
			ID string `json:"id"`
		}
		json.Unmarshal(pubs[0].Payload, &me)
		out = append(out, &hconn{cl, me.ID})
	}
	hconns[v] = out
	return out
}

type pkey struct {
	str    string
	target string
	perm   uint8
	origin string
}

var hSalt uint16

func runHCase(c HCase) vkit.Result {
	e := getEnv(c.Lic)
	conns := getConns(e, c.Lic)
	fail := func(format string, a ...interface{}) vkit.Result {
		delete(envs, c.Lic) // do not reuse this broker
		delete(hconns, c.Lic)
		return vkit.Failf(format, a...)
	}
	var pool []pkey
	for i, k := range c.Keys {
		hSalt++
		pool = append(pool, pkey{e.b.Encrypt(e.b.RawKey(k.Target, k.Perm, time.Unix(0, 0), hSalt)), k.Target, k.Perm, fmt.Sprintf("initial %d", i)})
	}
	labels := map[string]bool{}
	reused := map[int]int{} // pool index -> number of successful extensions made from it
	nontrivial := false
	describe := func(k pkey) string { return fmt.Sprintf("{%s: target %s perms %08b}", k.origin, k.target, k.perm) }
	for step, op := range c.Ops {
		ki := op.Key % len(pool)
		k := pool[ki]
		cn := conns[op.C]
		ext := k.perm&security.AllowExtend != 0
		switch op.K {
		case "extend", "mint":
			parent, ch := k.str, op.Ch
			wantOK, wantPerm, wantTarget := false, uint8(0), ""
			if op.K == "mint" {
				parent = e.b.Master
				wantOK, wantPerm, wantTarget = true, access(op.Type), ch
			} else if ext && hCovers(k.target, ch) {
				wantOK, wantPerm, wantTarget = true, access(op.Type)&k.perm&^security.AllowExtend, ch+cn.id+"/"
			}
			pubs, err := cn.cl.Request(uint16(step+10), "keygen", map[string]interface{}{"key": parent, "channel": ch, "type": op.Type, "ttl": 0})
			if err != nil || len(pubs) != 1 {
				return fail("step %d: keygen request: %v, %d replies", step, err, len(pubs))
			}
			var resp struct {
				Status  int    `json:"status"`
				Key     string `json:"key"`
				Channel string `json:"channel"`
			}
			json.Unmarshal(pubs[0].Payload, &resp)
			if (resp.Status == 200) != wantOK {
				if !ext && op.K == "extend" && resp.Status != 200 {
					break
				}
				return fail("step %d: %s of %s for channel %q by connection %d answered with status %d, expected success=%v (after %d earlier extensions of this key)", step, op.K, describe(k), ch, op.C, resp.Status, wantOK, reused[ki])
			}
			if !wantOK {
				labels["derivation-refused"] = true
				break
			}
			child, err := e.b.S.VerifKeygen().DecryptKey(resp.Key)
			if err != nil {
				return fail("step %d: issued key does not decrypt", step)
			}
			path, h := targetBytes(wantTarget)
			gotPath := uint32(child[12])<<16 | uint32(child[13])<<8 | uint32(child[14])
			gotHash := uint32(child[16])<<24 | uint32(child[17])<<16 | uint32(child[18])<<8 | uint32(child[19])
			if child.Permissions() != wantPerm || gotPath != path || gotHash != h || resp.Channel != wantTarget {
				return fail("step %d: %s of %s for %q by connection %d (id %s) with type %q issued a key with perms %08b for channel %q (path %06x hash %08x); expected perms %08b for exactly %q (path %06x hash %08x); %d earlier extensions of this parent",
					step, op.K, describe(k), ch, op.C, cn.id, op.Type, child.Permissions(), resp.Channel, gotPath, gotHash, wantPerm, wantTarget, path, h, reused[ki])
			}
			if op.K == "extend" {
				if reused[ki] > 0 {
					labels["parent-extended-again"] = true
					nontrivial = true
				}
				reused[ki]++
			}
			if len(pool) < 12 {
				pool = append(pool, pkey{resp.Key, wantTarget, wantPerm, fmt.Sprintf("%s at step %d by conn %d", op.K, step, op.C)})
			}
		case "sub":
			want := !ext && k.perm&security.AllowRead != 0 && hCovers(k.target, op.Ch)
			codes, _, err := cn.cl.Subscribe(uint16(step+10), k.str+"/"+op.Ch)
			if err != nil {
				return fail("step %d: subscribe: %v", step, err)
			}
			if (codes[0] != 0x80) != want {
				return fail("step %d: SUBSCRIBE to %q with %s (extended %d times so far) accepted=%v, expected %v", step, op.Ch, describe(k), reused[ki], codes[0] != 0x80, want)
			}
			if want {
				if _, err := cn.cl.Unsubscribe(uint16(step+10), k.str+"/"+op.Ch); err != nil {
					return fail("step %d: unsubscribe: %v", step, err)
				}
			}
			if ext && reused[ki] > 0 {
				labels["extendable-parent-used-after-extension"] = true
				nontrivial = true
			}
		case "pub":
			want := !ext && k.perm&security.AllowWrite != 0 && hCovers(k.target, op.Ch)
			pubs, err := cn.cl.Publish(uint16(step+10), k.str+"/"+op.Ch, []byte("x"), false)
			if err != nil {
				return fail("step %d: publish: %v", step, err)
			}
			refused := false
			for _, p := range pubs {
				if _, _, isErr := vkit.IsErrorReply(p); isErr {
					refused = true
				}
			}
			if refused == want {
				return fail("step %d: PUBLISH to %q with %s (extended %d times so far) refused=%v, expected accepted=%v", step, op.Ch, describe(k), reused[ki], refused, want)
			}
		case "probe":
			want := k.perm&op.Bit != 0 && hCovers(k.target, op.Ch)
			_, _, got := e.b.S.Authorize(security.ParseChannel([]byte(k.str+"/"+op.Ch)), op.Bit)
			if got != want {
				return fail("step %d: Authorize(%s, %q, permission %08b) = %v, expected %v (the key was extended %d times so far)", step, describe(k), op.Ch, op.Bit, got, want, reused[ki])
			}
			if reused[ki] > 0 {
				labels["parent-probed-after-extension"] = true
			}
		case "bad":
			bad := []byte(k.str)
			bad[op.Pos] = []byte{'.', '*', '=', '~', ' '}[op.Pos%5]
			for round := 0; round < 2; round++ {
				codes, _, err := cn.cl.Subscribe(uint16(step+10), string(bad)+"/"+op.Ch)
				if err != nil {
					return fail("step %d: subscribe with a damaged key: %v", step, err)
				}
				if codes[0] != 0x80 {
					return fail("step %d: a key with character %d replaced by %q was accepted for SUBSCRIBE to %q (presentation %d)", step, op.Pos, bad[op.Pos], op.Ch, round+1)
				}
			}
			labels["damaged-key-presented-twice"] = true
		}
	}
	r := vkit.Result{NonTrivial: nontrivial}
	for l := range labels {
		r.Labels = append(r.Labels, l)
	}
	sort.Strings(r.Labels)
	return r
}

func TestKeyHistory(t *testing.T) { vkit.Check(t, genHCase, runHCase) }

// TestKeygenConcurrent: several connections request keys at the same time (valid requests of different shapes mixed
// with requests for malformed channels, which are refused). Every issued key must be exactly the one its own request
// asked for - never another request's permissions, channel or expiry.
func TestKeygenConcurrent(t *testing.T) {
	rounds := vkit.N(6)
	for round := 0; round < rounds; round++ {
		v := 1 + round%3
		e := getEnv(v)
		const G = 8
		type reqT struct {
			ch   string
			perm uint8
			ttl  int64
			ok   bool
		}
		shapes := []reqT{{"a/", security.AllowRead, 0, true}, {"seed/b/#/", security.AllowReadWrite | security.AllowStore | security.AllowLoad | security.AllowPresence | security.AllowExtend, 0, true},
			{"x/y/z/", security.AllowWrite, 7200, true}, {"a/b/", security.AllowLoad | security.AllowRead, 0, true}, {"nochannel", security.AllowRead, 0, false},
			{strings.Repeat("l/", 24), security.AllowReadWrite, 0, false}, {"c/", security.AllowPresence, 86400, true}, {"", security.AllowRead, 0, false}}
		var wg sync.WaitGroup
		errs := make(chan string, G)
		for g := 0; g < G; g++ {
			wg.Add(1)
			go func(g int) {
				defer wg.Done()
				for it := 0; it < 300; it++ {
					r := shapes[(g+it*3)%len(shapes)]
					exp := time.Unix(0, 0)
					t0 := time.Now().Unix()
					if r.ttl != 0 {
						exp = time.Now().Add(time.Duration(r.ttl) * time.Second)
					}
					out, err := e.b.S.VerifKeygen().CreateKey(e.b.Master, r.ch, r.perm, exp)
					if (err == nil) != r.ok {
						errs <- fmt.Sprintf("key request for %q: error %v, expected success=%v", r.ch, err, r.ok)
						return
					}
					if err != nil {
						continue
					}
					k, derr := e.b.S.VerifKeygen().DecryptKey(out)
					if derr != nil {
						errs <- fmt.Sprintf("issued key does not decrypt: %v", derr)
						return
					}
					path, h := targetBytes(r.ch)
					gotPath := uint32(k[12])<<16 | uint32(k[13])<<8 | uint32(k[14])
					gotHash := uint32(k[16])<<24 | uint32(k[17])<<16 | uint32(k[18])<<8 | uint32(k[19])
					expOK := (r.ttl == 0 && k.Expires().Equal(time.Unix(0, 0))) || (r.ttl != 0 && k.Expires().Unix() >= t0+r.ttl-2 && k.Expires().Unix() <= time.Now().Unix()+r.ttl+2)
					if k.Permissions() != r.perm || gotPath != path || gotHash != h || !expOK || k.Contract() != e.b.Lic.Contract() {
						errs <- fmt.Sprintf("with %d connections requesting keys at once: the request for %q with permissions %08b, ttl %d was answered with a key that has permissions %08b, target path %06x hash %08x (expected %06x %08x), expiry %d",
							G, r.ch, r.perm, r.ttl, k.Permissions(), gotPath, gotHash, path, h, k.Expires().Unix())
						return
					}
				}
			}(g)
		}
		wg.Wait()
		c := map[string]int{"round": round, "license": v, "goroutines": G}
		select {
		case m := <-errs:
			vkit.ReportFailure(t.Name(), c, m, "")
			t.Fatal(m)
		default:
		}
		vkit.Record(t.Name(), c, vkit.OK(true, "keygen-concurrent"))
	}
}
