//go:build verif

package c15

// What a kill leaves on disk when it lands while the store is deleting the log of a flushed memtable - the file is
// truncated to zero length first and removed afterwards - is constructed directly: every position of the empty file
// in the sequence of log files, on a directory that holds acknowledged messages. The store must open and return
// every one of them (the saved failing history of the kill-points leg is the same state reached by a real SIGKILL).

import (
	"fmt"
	"os"
	"path/filepath"
	"testing"
	"time"

	"github.com/emitter-io/emitter/internal/message"
	"github.com/emitter-io/emitter/internal/provider/storage"
	"github.com/emitter-io/emitter/internal/verif/vkit"
)

func tornRun(fid int, lives int) string {
	dir, err := os.MkdirTemp(vkit.OutDir(), "c15torn")
	if err != nil {
		panic(err)
	}
	defer os.RemoveAll(dir)
	ssid := message.Ssid{1, 77}
	stored := 0
	for life := 0; life < lives; life++ {
		s := storage.NewSSD(nil)
		if err := s.Configure(map[string]interface{}{"dir": dir}); err != nil {
			return fmt.Sprintf("life %d: open: %v", life, err)
		}
		for i := 0; i < 5; i++ {
			m := message.New(ssid, []byte("t/"), []byte(fmt.Sprintf("torn-%d", stored)))
			m.TTL = 3600
			if err := s.Store(m); err != nil {
				return fmt.Sprintf("store: %v", err)
			}
			stored++
		}
		if err := s.Close(); err != nil {
			return fmt.Sprintf("close: %v", err)
		}
	}
	// the kill: a log file of a flushed memtable, already truncated, not yet removed
	if err := os.WriteFile(filepath.Join(dir, fmt.Sprintf("%05d.mem", fid)), nil, 0666); err != nil {
		panic(err)
	}
	s := storage.NewSSD(nil)
	if err := s.Configure(map[string]interface{}{"dir": dir}); err != nil {
		return fmt.Sprintf("after a kill that left the zero-length log file %05d.mem (truncated, not yet removed) the store with %d acknowledged messages does not open any more: %v", fid, stored, err)
	}
	defer s.Close()
	now := time.Now()
	got, err := s.Query(ssid, now.Add(-time.Hour), now.Add(time.Hour), nil, 1000)
	if err != nil || len(got) != stored {
		return fmt.Sprintf("after the kill the store returns %d of %d acknowledged messages (err %v)", len(got), stored, err)
	}
	return ""
}

func TestTornLogDelete(t *testing.T) {
	type tc struct{ Fid, Lives int }
	for _, c := range []tc{{1, 1}, {2, 1}, {1, 3}, {3, 3}, {7, 2}} {
		msg := tornRun(c.Fid, c.Lives)
		if msg != "" {
			vkit.ReportFailure(t.Name(), c, msg, "")
			t.Fatal(msg)
		}
		vkit.Record(t.Name(), c, vkit.OK(true, "zero-length-log-file"))
	}
}
