//go:build verif

// C15 — Stored messages survive broker restarts and crashes.
// Fault enumeration with randomised kill points: a child process (this test binary re-executed) opens the disk
// store on a directory and stores generated messages from several goroutines, reporting "TRY i id" before and
// "ACK i" after each Store; the parent SIGKILLs it after a drawn delay / number of acknowledgements, or the child
// kills itself right after the last Store of a burst returned, or shuts down cleanly. A FRESH process then reopens
// the directory and pages through history.
package c15

import (
	"bufio"
	"bytes"
	"encoding/hex"
	"encoding/json"
	"fmt"
	"os"
	"os/exec"
	"strings"
	"sync"
	"sync/atomic"
	"syscall"
	"testing"
	"time"

	"github.com/emitter-io/emitter/internal/message"
	"github.com/emitter-io/emitter/internal/provider/storage"
	"github.com/emitter-io/emitter/internal/security/hash"
	"github.com/emitter-io/emitter/internal/verif/vkit"
	"pgregory.net/rapid"
)

// Cycle is one life of the storing process.
type Cycle struct {
	End        string `json:"end"`                  // kill-ms, kill-acks, selfkill, close, close-busy (clean shutdown after Param acks while the storers keep going)
	Param      int    `json:"param"`                // milliseconds / number of acks
	Goroutines int    `json:"goroutines"`           // concurrent storers
	Burst      int    `json:"burst"`                // messages per goroutine (selfkill / close end after the burst)
	Size       int    `json:"size"`                 // payload size
	Pin        bool   `json:"pin,omitempty"`        // the ids of this life carry the current minute as their time (lives that follow each other quickly then share the second: nothing else may make two ids equal)
	NoRead     bool   `json:"noread,omitempty"`     // nobody reads history between this life and the next one (what was acknowledged is checked after a later life)
	ReadStores bool   `json:"readstores,omitempty"` // the fresh process that reads history afterwards first stores one more message (a publish arrives before the first history request)
}

// Case is a sequence of lives on one directory.
type Case struct {
	Cycles []Cycle `json:"cycles"`
}

func genCase(t *rapid.T) Case {
	var c Case
	n := rapid.IntRange(2, 5).Draw(t, "cycles")
	killRun := rapid.IntRange(0, 2).Draw(t, "killrun") == 0 // several lives in a row end in a kill before anybody reads
	if killRun {
		n = rapid.IntRange(4, 6).Draw(t, "runcycles")
	}
	for i := 0; i < n; i++ {
		cy := Cycle{End: rapid.SampledFrom([]string{"kill-ms", "kill-ms", "kill-acks", "selfkill", "selfkill", "close", "close-busy"}).Draw(t, "end"), ReadStores: rapid.IntRange(0, 2).Draw(t, "readstores") == 0, Pin: rapid.IntRange(0, 2).Draw(t, "pin") == 0,
			Goroutines: rapid.SampledFrom([]int{1, 1, 4, 16, 64}).Draw(t, "g"), Burst: rapid.SampledFrom([]int{1, 5, 30, 100}).Draw(t, "burst"),
			Size: rapid.SampledFrom([]int{0, 8, 8, 200, 5000}).Draw(t, "size")}
		switch cy.End {
		case "kill-ms":
			cy.Param = rapid.SampledFrom([]int{0, 1, 5, 20, 60, 150}).Draw(t, "ms")
		case "kill-acks", "close-busy":
			cy.Param = rapid.SampledFrom([]int{1, 2, 10, 50, 300}).Draw(t, "acks")
		}
		if killRun && i < n-1 {
			cy.NoRead = true
			if cy.End == "close" || cy.End == "close-busy" {
				cy.End, cy.Param = "kill-acks", rapid.SampledFrom([]int{1, 2, 10}).Draw(t, "runacks")
			}
		} else if !killRun && i < n-1 {
			cy.NoRead = rapid.IntRange(0, 3).Draw(t, "noread") == 0
		}
		c.Cycles = append(c.Cycles, cy)
	}
	return c
}

func chanOf(i int) (string, message.Ssid) {
	lvl := fmt.Sprintf("c%d", i/50)
	return lvl + "/", message.Ssid{1, hash.OfString(lvl)}
}

// every fifth message is "retained" (the sentinel TTL): it must come back with the configured retention (30 days by default)
func ttlOf(i int) uint32 {
	if i%5 == 4 {
		return message.RetainedTTL
	}
	return 3600 + uint32(i%7)
}

func expiryTTL(i int) uint32 {
	if i%5 == 4 {
		return 2592000
	}
	return 3600 + uint32(i%7)
}

func payloadOf(i, size int) []byte {
	p := []byte(fmt.Sprintf("m%08d", i))
	for len(p) < size {
		p = append(p, byte('a'+(i+len(p))%26))
	}
	return p
}

type plan struct {
	Dir   string `json:"dir"`
	Mode  string `json:"mode"` // store | read
	Start int    `json:"start"`
	Upto  int    `json:"upto"`
	Cycle Cycle  `json:"cycle"`
}

// childMain is the body of the re-executed process.
func childMain(p plan) {
	vkit.Quiet()
	s := storage.NewSSD(nil)
	if err := s.Configure(map[string]interface{}{"dir": p.Dir}); err != nil {
		fmt.Println("ERR open:", err)
		os.Exit(3)
	}
	if p.Mode == "read" {
		if p.Cycle.ReadStores {
			i := p.Upto
			ch, ssid := chanOf(i)
			m := message.New(ssid, []byte(ch), payloadOf(i, 8))
			m.TTL = ttlOf(i)
			fmt.Printf("TRY %d %s\n", i, hex.EncodeToString(m.ID))
			if err := s.Store(m); err != nil {
				fmt.Println("ERR store:", err)
				os.Exit(5)
			}
			fmt.Printf("ACK %d\n", i)
		}
		for g := 0; g <= p.Upto/50+1; g++ {
			_, ssid := chanOf(g * 50)
			var from message.ID
			for page := 0; page < 1000; page++ {
				f, err := s.Query(ssid, time.Unix(0, 0), time.Unix(0, 0), from, 20)
				if err != nil {
					fmt.Println("ERR query:", err)
					os.Exit(4)
				}
				if len(f) == 0 {
					break
				}
				oldest := f[0].ID
				for _, m := range f {
					fmt.Printf("MSG %s %s %s %d\n", hex.EncodeToString(m.ID), m.Channel, hex.EncodeToString(m.Payload), m.TTL)
					if bytes.Compare(m.ID, oldest) > 0 {
						oldest = m.ID
					}
				}
				from = oldest
			}
		}
		fmt.Println("DONE")
		s.Close()
		os.Exit(0)
	}
	var mu sync.Mutex
	w := bufio.NewWriter(os.Stdout)
	say := func(format string, a ...interface{}) {
		mu.Lock()
		fmt.Fprintf(w, format, a...)
		w.Flush()
		mu.Unlock()
	}
	cy := p.Cycle
	endless := cy.End == "kill-ms" || cy.End == "kill-acks" || cy.End == "close-busy"
	var acks, shutDown int64
	closeNow := make(chan struct{})
	var closeOnce sync.Once
	var wg sync.WaitGroup
	for g := 0; g < cy.Goroutines; g++ {
		wg.Add(1)
		go func(g int) {
			defer wg.Done()
			after := 0
			for k := 0; endless || k < cy.Burst; k++ {
				if atomic.LoadInt64(&shutDown) == 1 { // the store is closed: a few more publishes still arrive, then the connection is gone
					if after++; after > 3 {
						return
					}
				}
				i := p.Start + k*cy.Goroutines + g
				ch, ssid := chanOf(i)
				m := message.New(ssid, []byte(ch), payloadOf(i, cy.Size))
				m.TTL = ttlOf(i)
				if cy.Pin {
					m.ID.SetTime(time.Now().Unix() / 60 * 60)
				}
				say("TRY %d %s\n", i, hex.EncodeToString(m.ID))
				err := func() (err error) {
					defer func() {
						if p := recover(); p != nil && cy.End == "close-busy" {
							err = fmt.Errorf("panic: %v", p) // a store racing the shutdown may be refused in any way, as long as it is not acknowledged
						} else if p != nil {
							panic(p)
						}
					}()
					return s.Store(m)
				}()
				if err != nil && cy.End == "close-busy" {
					say("NACK %d\n", i)
					return
				}
				if err != nil {
					say("ERR store: %v\n", err)
					os.Exit(5)
				}
				say("ACK %d\n", i)
				if cy.End == "close-busy" && atomic.AddInt64(&acks, 1) >= int64(cy.Param) {
					closeOnce.Do(func() { close(closeNow) })
				}
			}
		}(g)
	}
	if cy.End == "close-busy" {
		<-closeNow
		if err := s.Close(); err != nil {
			say("ERR close: %v\n", err)
			os.Exit(6)
		}
		atomic.StoreInt64(&shutDown, 1)
		// every storer is refused now, or gives up after three more attempts - or is stuck inside the closed store
		// (its connection would simply never be served again): do not wait for those
		idle := make(chan struct{})
		go func() { wg.Wait(); close(idle) }()
		select {
		case <-idle:
		case <-time.After(2 * time.Second):
		}
		say("CLOSED\n")
		os.Exit(0)
	}
	wg.Wait()
	if cy.End == "selfkill" {
		syscall.Kill(os.Getpid(), syscall.SIGKILL) // the very moment the last Store of the burst has returned
		select {}
	}
	if err := s.Close(); err != nil {
		say("ERR close: %v\n", err)
		os.Exit(6)
	}
	say("CLOSED\n")
	os.Exit(0)
}

func TestMain(m *testing.M) {
	if pj := os.Getenv("VERIF_C15_PLAN"); pj != "" {
		var p plan
		if err := json.Unmarshal([]byte(pj), &p); err != nil {
			panic(err)
		}
		childMain(p)
	}
	vkit.Main(m)
}

type want struct {
	id, ch, payload string
	ttl             uint32
}

func spawn(p plan) *exec.Cmd {
	pj, _ := json.Marshal(p)
	cmd := exec.Command(os.Args[0], "-test.run", "^$")
	cmd.Env = append(os.Environ(), "VERIF_C15_PLAN="+string(pj))
	return cmd
}

func run(c Case) vkit.Result {
	dir, err := os.MkdirTemp(vkit.OutDir(), "c15")
	if err != nil {
		panic(err)
	}
	defer os.RemoveAll(dir)
	acked := map[int]want{}
	tried := map[string]bool{}
	next := 0
	labels := map[string]bool{}
	nontrivial := false
	for ci, cy := range c.Cycles {
		cmd := spawn(plan{Dir: dir, Mode: "store", Start: next, Cycle: cy})
		out, _ := cmd.StdoutPipe()
		var stderr bytes.Buffer
		cmd.Stderr = &stderr
		if err := cmd.Start(); err != nil {
			panic(err)
		}
		killed := make(chan struct{})
		var once sync.Once
		kill := func() { once.Do(func() { cmd.Process.Signal(syscall.SIGKILL); close(killed) }) }
		started := time.Now()
		pending := map[int]want{}
		acksThisCycle, inflightAtEnd := 0, 0
		closed := false
		sc := bufio.NewScanner(out)
		sc.Buffer(make([]byte, 1<<20), 1<<20)
		var timer *time.Timer
		for sc.Scan() {
			line := sc.Text()
			var i int
			var id string
			switch {
			case strings.HasPrefix(line, "TRY "):
				fmt.Sscanf(line, "TRY %d %s", &i, &id)
				ch, _ := chanOf(i)
				pending[i] = want{id, ch, hex.EncodeToString(payloadOf(i, cy.Size)), expiryTTL(i)}
				tried[id] = true
				if i >= next {
					next = i + 1
				}
				if cy.End == "kill-ms" && timer == nil {
					timer = time.AfterFunc(time.Duration(cy.Param)*time.Millisecond, kill)
				}
			case strings.HasPrefix(line, "ACK "):
				fmt.Sscanf(line, "ACK %d", &i)
				acked[i] = pending[i]
				delete(pending, i)
				acksThisCycle++
				if cy.End == "kill-acks" && acksThisCycle >= cy.Param {
					kill()
				}
			case strings.HasPrefix(line, "NACK "):
				labels["store-refused-during-shutdown"] = true
			case line == "CLOSED":
				closed = true
			case strings.HasPrefix(line, "ERR"):
				cmd.Process.Kill()
				cmd.Wait()
				return vkit.Failf("cycle %d (%+v): storing process reports %s", ci, cy, line)
			}
		}
		cmd.Wait()
		if timer != nil {
			timer.Stop()
		}
		inflightAtEnd = len(pending)
		if (cy.End == "close" || cy.End == "close-busy") && !closed {
			return vkit.Failf("cycle %d: clean shutdown did not complete (stderr: %s)", ci, tail(stderr.String()))
		}
		if time.Since(started) > 900*time.Second {
			return vkit.Failf("cycle %d took %v", ci, time.Since(started))
		}
		if cy.End != "close" && acksThisCycle > 0 && (inflightAtEnd > 0 || cy.End == "selfkill") {
			nontrivial = true
		}
		labels["end-"+cy.End] = true
		if cy.NoRead && ci < len(c.Cycles)-1 {
			labels["next-life-follows-unread"] = true
			continue
		}
		// a fresh process reopens the directory and pages through history
		rd := spawn(plan{Dir: dir, Mode: "read", Upto: next, Cycle: cy})
		var rerr bytes.Buffer
		rd.Stderr = &rerr
		b, _ := rd.Output()
		found := map[string]want{}
		done := false
		for _, l := range strings.Split(string(b), "\n") {
			var id, ch, pl string
			var ttl uint32
			if n, _ := fmt.Sscanf(l, "MSG %s %s %s %d", &id, &ch, &pl, &ttl); n >= 3 {
				if _, dup := found[id]; dup {
					return vkit.Failf("after cycle %d: message %s is returned twice while paging through history", ci, id)
				}
				found[id] = want{id, ch, pl, ttl}
			}
			if l == "DONE" {
				done = true
			}
			var ri int
			var rid string
			if n, _ := fmt.Sscanf(l, "TRY %d %s", &ri, &rid); n == 2 {
				ch, _ := chanOf(ri)
				acked[ri] = want{rid, ch, hex.EncodeToString(payloadOf(ri, 8)), expiryTTL(ri)}
				tried[rid] = true
				if ri >= next {
					next = ri + 1
				}
				labels["reader-stored-first"] = true
			}
			if strings.HasPrefix(l, "ERR") {
				return vkit.Failf("after cycle %d (%+v): the store does not reopen / cannot be queried: %s", ci, cy, l)
			}
		}
		if !done {
			return vkit.Failf("after cycle %d (%+v): the reader process died before finishing: %s", ci, cy, tail(rerr.String()))
		}
		for i, w := range acked {
			if got, ok := found[w.id]; !ok {
				return vkit.Failf("after cycle %d (%+v, %d acknowledged in this life, %d in flight at the end): message #%d, whose Store call had returned, is not in history any more", ci, cy, acksThisCycle, inflightAtEnd, i)
			} else if got != w {
				return vkit.Failf("after cycle %d (%+v): message #%d comes back as channel %s / payload %.20s… / ttl %d, stored %s / %.20s… / %d", ci, cy, i, got.ch, got.payload, got.ttl, w.ch, w.payload, w.ttl)
			}
		}
		for id := range found {
			if !tried[id] {
				return vkit.Failf("after cycle %d: history returns message %s that was never stored", ci, id)
			}
		}
	}
	r := vkit.Result{NonTrivial: nontrivial}
	for l := range labels {
		r.Labels = append(r.Labels, l)
	}
	return r
}

func tail(s string) string {
	if len(s) > 400 {
		return s[len(s)-400:]
	}
	return s
}

func TestKillPoints(t *testing.T) { vkit.Check(t, genCase, run) }
