//go:build verif

package vkit

import (
	"fmt"
	"sort"
	"sync"

	"github.com/emitter-io/emitter/internal/event"
	"github.com/weaveworks/mesh"
)

// SimNet is a simulated gossip transport between in-process brokers: an implementation of mesh.Gossip per node
// plus, per directed link, the transcribed mesh sender (GSender) and a FIFO wire shared by unicast frames and
// picked gossip. The harness decides when a link picks and when a wire message is delivered; delivery calls the
// receiver's real OnGossip / OnGossipBroadcast / OnGossipUnicast and relays the returned delta along the
// broadcast tree (gossipChannel.relayBroadcast) or to the other neighbours (gossipChannel.relay).
type SimNet struct {
	mu         sync.Mutex // broker goroutines (client connections, peer flush tickers) call into the node's Gossip methods concurrently
	Nodes      []*SimNode
	Adj        map[int][]int // topology (undirected): neighbours per node index
	senders    map[[2]int]*GSender
	wires      map[[2]int][]WireMsg
	Down       map[[2]int]bool
	NoCoalesce bool // schedule classes A / A': a sender never holds two payloads in one bucket (the bucket is put on the wire first)
	Unicasts   map[[2]int]int
	Failed     map[[2]int]int // unicast frames refused because there was no route (source, destination)
	// Observe is called for every state payload handed to a receiver (decoded by the harness).
	Observe  func(from, to int, kind string, st *event.State)
	PanicMsg string
}

// SimNode is one broker of the simulated cluster.
type SimNode struct {
	B    *Broker
	Name mesh.PeerName
	Idx  int
	net  *SimNet
}

// NewSimNet wires the brokers (their swarm's gossip interface is replaced through the verif hook).
func NewSimNet(brokers []*Broker, line bool) *SimNet {
	n := &SimNet{Adj: map[int][]int{}, senders: map[[2]int]*GSender{}, wires: map[[2]int][]WireMsg{}, Down: map[[2]int]bool{}, Unicasts: map[[2]int]int{}, Failed: map[[2]int]int{}}
	for i, b := range brokers {
		node := &SimNode{B: b, Name: b.S.VerifSwarm().VerifName(), Idx: i, net: n}
		n.Nodes = append(n.Nodes, node)
		b.S.VerifSwarm().VerifSetGossip(node)
	}
	for i := range brokers {
		for j := range brokers {
			if i != j && (!line || i-j == 1 || j-i == 1) {
				n.Adj[i] = append(n.Adj[i], j)
			}
		}
	}
	return n
}

func (n *SimNet) idx(name mesh.PeerName) int {
	for _, x := range n.Nodes {
		if x.Name == name {
			return x.Idx
		}
	}
	return -1
}

func (n *SimNet) up(a, b int) bool { return !n.Down[[2]int{a, b}] && !n.Down[[2]int{b, a}] }

func (n *SimNet) neighbours(a int) []int {
	var out []int
	for _, b := range n.Adj[a] {
		if n.up(a, b) {
			out = append(out, b)
		}
	}
	return out
}

// bfs returns the parent of every reachable node in the shortest-path tree rooted at root (over links that are up).
func (n *SimNet) bfs(root int) map[int]int {
	parent := map[int]int{root: -1}
	queue := []int{root}
	for len(queue) > 0 {
		x := queue[0]
		queue = queue[1:]
		for _, y := range n.neighbours(x) {
			if _, seen := parent[y]; !seen {
				parent[y] = x
				queue = append(queue, y)
			}
		}
	}
	return parent
}

// broadcastHops: the next hops of node at in the broadcast tree rooted at src (mesh routes.BroadcastAll).
func (n *SimNet) broadcastHops(src, at int) []int {
	parent := n.bfs(src)
	var out []int
	for y, p := range parent {
		if p == at {
			out = append(out, y)
		}
	}
	sort.Ints(out)
	return out
}

// unicastHop: the next hop from at towards dst (mesh routes.UnicastAll), -1 if unreachable.
func (n *SimNet) unicastHop(at, dst int) int {
	parent := n.bfs(at)
	if _, ok := parent[dst]; !ok {
		return -1
	}
	x := dst
	for parent[x] != at {
		x = parent[x]
	}
	return x
}

// Sender returns the transcribed sender of the directed link a->b.
func (n *SimNet) Sender(a, b int) *GSender {
	k := [2]int{a, b}
	if n.senders[k] == nil {
		n.senders[k] = NewGSender()
	}
	return n.senders[k]
}

// NilMerges is the total number of times mesh would have called Merge on a nil pending payload (a panic in mesh).
func (n *SimNet) NilMerges() int {
	n.mu.Lock()
	defer n.mu.Unlock()
	c := 0
	for _, s := range n.senders {
		c += s.NilMerges
	}
	return c
}

// Coalesced is the total number of pending.Merge(new) calls performed by all senders.
func (n *SimNet) Coalesced() int {
	n.mu.Lock()
	defer n.mu.Unlock()
	c := 0
	for _, s := range n.senders {
		c += s.Coalesced
	}
	return c
}

func (n *SimNet) put(a, b int, msgs []WireMsg) {
	k := [2]int{a, b}
	n.wires[k] = append(n.wires[k], msgs...)
}

func (n *SimNet) queueBroadcast(at, to int, src mesh.PeerName, data mesh.GossipData) {
	s := n.Sender(at, to)
	if n.NoCoalesce && s.PendingBroadcast(src) {
		// mesh's sender goroutine ran in between: the pending payload is already on the wire
		for {
			msgs, ok := s.Pick()
			if !ok {
				break
			}
			n.put(at, to, msgs)
		}
	}
	s.Broadcast(src, data)
}

func (n *SimNet) queueGossip(at, to int, data mesh.GossipData) {
	s := n.Sender(at, to)
	if n.NoCoalesce && s.PendingGossip() {
		for {
			msgs, ok := s.Pick()
			if !ok {
				break
			}
			n.put(at, to, msgs)
		}
	}
	s.Send(data)
}

// GossipUnicast implements mesh.Gossip for the node (gossipChannel.GossipUnicast -> relayUnicast).
func (x *SimNode) GossipUnicast(dst mesh.PeerName, msg []byte) error {
	x.net.mu.Lock()
	defer x.net.mu.Unlock()
	d := x.net.idx(dst)
	hop := -1
	if d >= 0 {
		hop = x.net.unicastHop(x.Idx, d)
	}
	if hop < 0 {
		x.net.Failed[[2]int{x.Idx, d}]++
		return fmt.Errorf("unknown relay destination: %s", dst)
	}
	x.net.Unicasts[[2]int{x.Idx, d}]++
	x.net.put(x.Idx, hop, []WireMsg{{Kind: "unicast", Src: x.Name, Buf: append([]byte(nil), msg...), Dst: dst}})
	return nil
}

// GossipBroadcast implements mesh.Gossip (gossipChannel.GossipBroadcast -> relayBroadcast from ourself).
func (x *SimNode) GossipBroadcast(update mesh.GossipData) {
	x.net.mu.Lock()
	defer x.net.mu.Unlock()
	for _, to := range x.net.broadcastHops(x.Idx, x.Idx) {
		x.net.queueBroadcast(x.Idx, to, x.Name, update)
	}
}

// GossipNeighbourSubset implements mesh.Gossip.
func (x *SimNode) GossipNeighbourSubset(update mesh.GossipData) {
	x.net.mu.Lock()
	defer x.net.mu.Unlock()
	for _, to := range x.net.neighbours(x.Idx) {
		x.net.queueGossip(x.Idx, to, update)
	}
}

// Periodic queues the node's live state object for one neighbour, as mesh's periodic gossip / SendDown does.
func (n *SimNet) Periodic(a, b int) {
	n.mu.Lock()
	defer n.mu.Unlock()
	if !n.up(a, b) {
		return
	}
	n.queueGossip(a, b, n.Nodes[a].B.S.VerifSwarm().Gossip())
}

// Pick lets the sender of link a->b put one piece of pending data on the wire.
func (n *SimNet) Pick(a, b int) bool {
	n.mu.Lock()
	defer n.mu.Unlock()
	msgs, ok := n.Sender(a, b).Pick()
	if ok {
		n.put(a, b, msgs)
	}
	return ok
}

// Deliver hands the oldest wire message of link a->b to b. Returns false if the wire was empty.
func (n *SimNet) Deliver(a, b int) (delivered bool) {
	n.mu.Lock()
	k := [2]int{a, b}
	if len(n.wires[k]) == 0 {
		n.mu.Unlock()
		return false
	}
	m := n.wires[k][0]
	n.wires[k] = n.wires[k][1:]
	if !n.up(a, b) {
		n.mu.Unlock()
		return true // lost with the link
	}
	n.mu.Unlock() // the receiver's handlers run without the transport lock (they may hand frames to the transport)
	sw := n.Nodes[b].B.S.VerifSwarm()
	observe := func(kind string) {
		if n.Observe != nil {
			if st, err := event.DecodeState(m.Buf); err == nil {
				n.Observe(a, b, kind, st)
			}
		}
	}
	switch m.Kind {
	case "unicast":
		if m.Dst != n.Nodes[b].Name { // relay without processing (gossipChannel.deliverUnicast)
			n.mu.Lock()
			if d := n.idx(m.Dst); d >= 0 {
				if hop := n.unicastHop(b, d); hop >= 0 {
					n.put(b, hop, []WireMsg{m})
				}
			}
			n.mu.Unlock()
			return true
		}
		sw.OnGossipUnicast(m.Src, m.Buf)
	case "broadcast":
		observe("broadcast")
		data, err := sw.OnGossipBroadcast(m.Src, m.Buf)
		if err == nil && data != nil {
			n.mu.Lock()
			if s := n.idx(m.Src); s >= 0 {
				for _, to := range n.broadcastHops(s, b) {
					n.queueBroadcast(b, to, m.Src, data)
				}
			}
			n.mu.Unlock()
		}
	case "gossip":
		observe("gossip")
		delta, err := sw.OnGossip(m.Buf)
		if err == nil && delta != nil {
			n.mu.Lock()
			for _, to := range n.neighbours(b) {
				if to != a {
					n.queueGossip(b, to, delta)
				}
			}
			n.mu.Unlock()
		}
	}
	return true
}

// Pending tells whether any sender or wire holds something.
func (n *SimNet) Pending() bool {
	n.mu.Lock()
	defer n.mu.Unlock()
	for _, s := range n.senders {
		if !s.Empty() {
			return true
		}
	}
	for _, w := range n.wires {
		if len(w) > 0 {
			return true
		}
	}
	return false
}

// PendingWire tells whether the wire a->b holds something.
func (n *SimNet) PendingWire(a, b int) int {
	n.mu.Lock()
	defer n.mu.Unlock()
	return len(n.wires[[2]int{a, b}])
}

// UnicastCount returns how many frames node a has handed to the transport for node b.
func (n *SimNet) UnicastCount(a, b int) int {
	n.mu.Lock()
	defer n.mu.Unlock()
	return n.Unicasts[[2]int{a, b}]
}

// Reachable tells whether b can be reached from a over links that are up.
func (n *SimNet) Reachable(a, b int) bool {
	n.mu.Lock()
	defer n.mu.Unlock()
	_, ok := n.bfs(a)[b]
	return ok
}

// FailedCount returns how many frames of node a for node b were refused for want of a route.
func (n *SimNet) FailedCount(a, b int) int {
	n.mu.Lock()
	defer n.mu.Unlock()
	return n.Failed[[2]int{a, b}]
}

// LinkDown tells whether the link between a and b is down.
func (n *SimNet) LinkDown(a, b int) bool {
	n.mu.Lock()
	defer n.mu.Unlock()
	return !n.up(a, b)
}

// Quiesce drives all senders and wires empty (per-link FIFO, round robin over links).
func (n *SimNet) Quiesce() {
	for guard := 0; n.Pending() && guard < 10000; guard++ {
		for a := range n.Nodes {
			for b := range n.Nodes {
				if a != b {
					n.Pick(a, b)
					for n.Deliver(a, b) {
					}
				}
			}
		}
	}
}

// Reconnect brings the link a<->b up and exchanges full state both ways (mesh sendAllGossipDown on a new connection).
func (n *SimNet) Reconnect(a, b int) {
	n.mu.Lock()
	delete(n.Down, [2]int{a, b})
	delete(n.Down, [2]int{b, a})
	n.mu.Unlock()
	n.Periodic(a, b)
	n.Periodic(b, a)
}

// Disconnect takes the link down: what is queued or on the wire for it is lost.
func (n *SimNet) Disconnect(a, b int) {
	n.mu.Lock()
	defer n.mu.Unlock()
	n.Down[[2]int{a, b}] = true
	for _, k := range [][2]int{{a, b}, {b, a}} {
		delete(n.senders, k)
		delete(n.wires, k)
	}
}
