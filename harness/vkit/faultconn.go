//go:build verif

package vkit

import (
	"bytes"
	"errors"
	"fmt"
	"io"
	"net"
	"strings"
	"sync"
	"time"

	"github.com/eclipse/paho.mqtt.golang/packets"
)

// FaultConn is a scripted broker-side socket: the whole client request stream In is readable in chunks (then EOF),
// the broker's writes with index >= FailFrom fail (peer gone) and the write with index FailOnce fails (transient
// failure); -1 disables either. Successful writes are recorded. Done is closed when the broker closes the socket.
type FaultConn struct {
	mu       sync.Mutex
	In       []byte
	pos      int
	Chunk    int
	nwrites  int
	FailFrom int // writes with index >= failFrom fail (-1: never)
	FailOnce int // the write with this index fails (-1: never)
	Wrote    [][]byte
	Done     chan struct{}
	once     sync.Once
}

var errGone = errors.New("write: broken pipe")

func (f *FaultConn) Read(p []byte) (int, error) {
	f.mu.Lock()
	defer f.mu.Unlock()
	if f.pos >= len(f.In) {
		return 0, io.EOF
	}
	n := len(f.In) - f.pos
	if n > f.Chunk {
		n = f.Chunk
	}
	if n > len(p) {
		n = len(p)
	}
	copy(p, f.In[f.pos:f.pos+n])
	f.pos += n
	return n, nil
}

func (f *FaultConn) Write(p []byte) (int, error) {
	f.mu.Lock()
	defer f.mu.Unlock()
	k := f.nwrites
	f.nwrites++
	if (f.FailFrom >= 0 && k >= f.FailFrom) || k == f.FailOnce {
		return 0, errGone
	}
	f.Wrote = append(f.Wrote, append([]byte(nil), p...))
	return len(p), nil
}

func (f *FaultConn) Close() error {
	f.once.Do(func() { close(f.Done) })
	return nil
}
func (f *FaultConn) LocalAddr() net.Addr { return &net.TCPAddr{IP: net.IPv4(127, 0, 0, 1), Port: 8080} }
func (f *FaultConn) RemoteAddr() net.Addr {
	return &net.TCPAddr{IP: net.IPv4(127, 0, 0, 1), Port: 40000}
}
func (f *FaultConn) SetDeadline(t time.Time) error      { return nil }
func (f *FaultConn) SetReadDeadline(t time.Time) error  { return nil }
func (f *FaultConn) SetWriteDeadline(t time.Time) error { return nil }

// DescribeWrite reduces one write of the broker to what must be reproducible between runs.
func DescribeWrite(w []byte) string {
	p, err := packets.ReadPacket(bytes.NewReader(w))
	if err != nil {
		return fmt.Sprintf("unparseable(%d bytes)", len(w))
	}
	switch m := p.(type) {
	case *packets.PublishPacket:
		if strings.HasPrefix(m.TopicName, "emitter/") {
			return "PUBLISH " + m.TopicName
		}
		return "PUBLISH " + m.TopicName + " " + string(m.Payload)
	case *packets.SubackPacket:
		return fmt.Sprintf("SUBACK %d %v", m.MessageID, m.ReturnCodes)
	case *packets.UnsubackPacket:
		return fmt.Sprintf("UNSUBACK %d", m.MessageID)
	case *packets.PubackPacket:
		return fmt.Sprintf("PUBACK %d", m.MessageID)
	case *packets.ConnackPacket:
		return fmt.Sprintf("CONNACK %d", m.ReturnCode)
	}
	return p.String()
}

// IsAckWrite: the packet that ends the serving of one request (API replies and error notifications precede it)
func IsAckWrite(d string) bool { return !strings.HasPrefix(d, "PUBLISH ") }

// Mu gives access to the recorded writes once the connection is done.
func (f *FaultConn) Mu() *sync.Mutex { return &f.mu }

// RunFaultConn attaches a scripted socket to the broker and waits until the broker has closed it; returns the
// description of every successful write.
func (b *Broker) RunFaultConn(stream []byte, chunk, failFrom, failOnce int) ([]string, string) {
	fc := &FaultConn{In: stream, Chunk: chunk, FailFrom: failFrom, FailOnce: failOnce, Done: make(chan struct{})}
	b.S.VerifAttach(fc)
	select {
	case <-fc.Done:
	case <-time.After(WaitCeiling):
		return nil, "the broker did not finish closing the connection after the whole request stream and EOF"
	}
	fc.mu.Lock()
	defer fc.mu.Unlock()
	var out []string
	for _, w := range fc.Wrote {
		out = append(out, DescribeWrite(w))
	}
	return out, ""
}
