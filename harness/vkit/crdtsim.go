//go:build verif

package vkit

import (
	"bytes"
	"encoding/binary"
	"fmt"
	"sort"

	"github.com/emitter-io/emitter/internal/event"
	"github.com/emitter-io/emitter/internal/event/crdt"
	"github.com/emitter-io/emitter/internal/message"
	"github.com/golang/snappy"
	"github.com/weaveworks/mesh"
	"pgregory.net/rapid"
)

// Replicated-state machine shared by C04 (convergence) and C13 (delta exactness): replicas are real event.State
// values (volatile or durable), payloads are real gossip payloads (single-operation states, full snapshots,
// deltas returned by earlier merges), optionally passed through Encode -> DecodeState. The model is the LWW
// lattice written from the statement: per key the pair (latest add, latest remove), merge = pointwise maximum.

// CrdtOp is one step. K: "add" / "del" (local operation at replica R on event Ev at clock T, which also creates
// the single-operation payload a broker broadcasts), "full" (snapshot of replica R into the payload pool),
// "ship" (payload P of the pool is merged into replica R; Hop = through Encode/DecodeState, which also leaves the
// pooled payload intact for re-delivery; without a hop the object itself is merged and consumed).
type CrdtOp struct {
	K   string `json:"k"`
	R   int    `json:"r"`
	Ev  int    `json:"ev,omitempty"`
	T   int64  `json:"t,omitempty"`
	P   int    `json:"p,omitempty"`
	Hop bool   `json:"hop,omitempty"`
	// Alien: the encoded payload additionally carries a subset of a type this version does not know (a newer broker
	// in a mixed cluster): nothing of it can change the receiver, so it is no news either
	Alien bool `json:"alien,omitempty"`
}

// CrdtCase is a history over a few replicas.
type CrdtCase struct {
	Durable []bool   `json:"durable"` // one entry per replica
	Ops     []CrdtOp `json:"ops"`
	Final   []int    `json:"final"` // order seeds for the final all-to-all snapshot exchange
}

type times struct{ add, del int64 }

type lww map[string]times // "typ|key" -> times

func (m lww) clone() lww {
	c := lww{}
	for k, v := range m {
		c[k] = v
	}
	return c
}

// CrdtEvents is the fixed universe of events (3 types, overlapping keys).
func CrdtEvents() []event.Event {
	b1, b2 := event.Ban("key-one"), event.Ban("key-two")
	return []event.Event{
		&event.Subscription{Peer: 1, Conn: 5, Ssid: message.Ssid{1, 2}, Channel: []byte("a/")},
		&event.Subscription{Peer: 1, Conn: 5, Ssid: message.Ssid{1, 2, 3}, Channel: []byte("a/b/")},
		&event.Subscription{Peer: 2, Conn: 5, Ssid: message.Ssid{1, 2}, Channel: []byte("a/")},
		&b1, &b2,
		&event.Connection{Peer: 1, Conn: 5, ClientID: []byte("c5")},
		&event.Connection{Peer: 2, Conn: 9, ClientID: []byte("c9")},
		// entries whose value is larger than a kilobyte (a long channel name, a long client id): read caches and stores
		// have size classes of their own
		&event.Subscription{Peer: 2, Conn: 7, Ssid: message.Ssid{1, 9}, Channel: bytes.Repeat([]byte("long-channel-level/"), 60)},
		&event.Connection{Peer: 1, Conn: 8, ClientID: bytes.Repeat([]byte("c"), 1500)},
	}
}

func evType(ev event.Event) uint8 {
	switch ev.(type) {
	case *event.Subscription:
		return event.VerifTypeSub
	case *event.Ban:
		return event.VerifTypeBan
	}
	return event.VerifTypeConn
}

func mkey(ev event.Event) string { return fmt.Sprintf("%d|%s", evType(ev), ev.Key()) }

// GenCrdtCase draws a history. Clocks are drawn from 1..8 so ties and backwards clocks are frequent.
func GenCrdtCase(t *rapid.T) CrdtCase {
	n := rapid.IntRange(2, 4).Draw(t, "replicas")
	c := CrdtCase{}
	for i := 0; i < n; i++ {
		c.Durable = append(c.Durable, rapid.IntRange(0, 2).Draw(t, "durable") == 0)
	}
	nev := len(CrdtEvents())
	pool := 0
	for i, m := 0, rapid.IntRange(1, 50).Draw(t, "nops"); i < m; i++ {
		switch k := rapid.IntRange(0, 9).Draw(t, "kind"); {
		case k < 3:
			c.Ops = append(c.Ops, CrdtOp{K: "add", R: rapid.IntRange(0, n-1).Draw(t, "r"), Ev: rapid.IntRange(0, nev-1).Draw(t, "ev"), T: rapid.Int64Range(1, 8).Draw(t, "t")})
			pool++
		case k < 5:
			c.Ops = append(c.Ops, CrdtOp{K: "del", R: rapid.IntRange(0, n-1).Draw(t, "r"), Ev: rapid.IntRange(0, nev-1).Draw(t, "ev"), T: rapid.Int64Range(1, 8).Draw(t, "t")})
			pool++
		case k < 6:
			c.Ops = append(c.Ops, CrdtOp{K: "full", R: rapid.IntRange(0, n-1).Draw(t, "r")})
			pool++
		default:
			if pool == 0 {
				continue
			}
			op := CrdtOp{K: "ship", R: rapid.IntRange(0, n-1).Draw(t, "r"), P: rapid.IntRange(0, 1000).Draw(t, "p"), Hop: rapid.Bool().Draw(t, "hop")}
			if op.Hop && rapid.IntRange(0, 5).Draw(t, "alien") == 0 {
				op.Alien = true
			}
			c.Ops = append(c.Ops, op)
			pool++ // a merge may return a delta that joins the pool
		}
	}
	c.Final = rapid.SliceOfN(rapid.IntRange(0, 1000), 0, 12).Draw(t, "final")
	return c
}

type payload struct {
	obj   *event.State
	model lww
	kind  string
}

// CrdtChecks selects the oracles.
type CrdtChecks struct {
	State bool // C04: every replica equals its model after every step; replicas converge
	Delta bool // C13a: the delta returned by Merge is exactly what changed; nil iff nothing changed
}

func stateOf(st *event.State, universe []event.Event) lww {
	out := lww{}
	for _, ev := range universe {
		v := st.VerifSubset(evType(ev)).Get(ev.Key())
		if v.AddTime() != 0 || v.DelTime() != 0 {
			out[mkey(ev)] = times{v.AddTime(), v.DelTime()}
		}
	}
	return out
}

func diffLww(got, want lww) string {
	keys := map[string]bool{}
	for k := range got {
		keys[k] = true
	}
	for k := range want {
		keys[k] = true
	}
	var ks []string
	for k := range keys {
		ks = append(ks, k)
	}
	sort.Strings(ks)
	for _, k := range ks {
		if got[k] != want[k] {
			return fmt.Sprintf("key %q: (add,del) = %v, expected %v", k, got[k], want[k])
		}
	}
	return ""
}

// checkReplica compares a replica with its model through every read accessor.
func checkReplica(st *event.State, model lww, universe []event.Event) string {
	if d := diffLww(stateOf(st, universe), model); d != "" {
		return d
	}
	perType := map[uint8]int{}
	for _, ev := range universe {
		m := model[mkey(ev)]
		active := m.add != 0 && m.add >= m.del
		if st.Has(ev) != active {
			return fmt.Sprintf("Has(%q) = %v, times %v", mkey(ev), st.Has(ev), m)
		}
		if sub := st.VerifSubset(evType(ev)); sub.Has(ev.Key()) != active {
			return fmt.Sprintf("subset.Has(%q) = %v, times %v", mkey(ev), !active, m)
		}
		if m != (times{}) {
			perType[evType(ev)]++
		}
	}
	for _, typ := range []uint8{event.VerifTypeSub, event.VerifTypeBan, event.VerifTypeConn} {
		sub := st.VerifSubset(typ)
		if sub.Count() != perType[typ] {
			return fmt.Sprintf("subset %d holds %d entries, model %d", typ, sub.Count(), perType[typ])
		}
		seenAll, seenActive := 0, 0
		bad := ""
		sub.Range(nil, true, func(k string, v crdt.Value) bool {
			seenAll++
			m := model[fmt.Sprintf("%d|%s", typ, k)]
			if m.add != v.AddTime() || m.del != v.DelTime() {
				bad = fmt.Sprintf("Range yields %q with times (%d,%d), model %v", k, v.AddTime(), v.DelTime(), m)
			}
			return true
		})
		sub.Range(nil, false, func(k string, v crdt.Value) bool {
			seenActive++
			m := model[fmt.Sprintf("%d|%s", typ, k)]
			if !(m.add != 0 && m.add >= m.del) {
				bad = fmt.Sprintf("Range(active only) yields %q whose times are %v", k, m)
			}
			return true
		})
		wantActive := 0
		for k, m := range model {
			if k[0] == byte('0'+typ) && m.add != 0 && m.add >= m.del {
				wantActive++
			}
		}
		if bad != "" {
			return bad
		}
		if seenAll != perType[typ] || seenActive != wantActive {
			return fmt.Sprintf("subset %d: Range visits %d entries (%d active), model %d (%d active)", typ, seenAll, seenActive, perType[typ], wantActive)
		}
	}
	// per-peer views (prefix scans over the live entries): what a broker walks when a peer comes online / goes away
	for _, peer := range []uint64{1, 2, 3} {
		wantS, wantC := map[string]bool{}, map[string]bool{}
		for _, ev := range universe {
			m := model[mkey(ev)]
			if !(m.add != 0 && m.add >= m.del) {
				continue
			}
			switch e := ev.(type) {
			case *event.Subscription:
				if e.Peer == peer {
					wantS[e.Key()] = true
				}
			case *event.Connection:
				if e.Peer == peer {
					wantC[e.Key()] = true
				}
			}
		}
		gotS, gotC := map[string]bool{}, map[string]bool{}
		st.SubscriptionsOf(mesh.PeerName(peer), func(s *event.Subscription) { gotS[s.Key()] = true })
		st.ConnectionsOf(mesh.PeerName(peer), func(c *event.Connection) { gotC[c.Key()] = true })
		if fmt.Sprint(gotS) != fmt.Sprint(wantS) {
			return fmt.Sprintf("SubscriptionsOf(peer %d) yields %d live subscriptions, model %d", peer, len(gotS), len(wantS))
		}
		if fmt.Sprint(gotC) != fmt.Sprint(wantC) {
			return fmt.Sprintf("ConnectionsOf(peer %d) yields %d live connections, model %d", peer, len(gotC), len(wantC))
		}
	}
	// the subscription iterator decodes every stored subscription key
	n := 0
	st.Subscriptions(func(s *event.Subscription, v event.Value) { n++ })
	if n != perType[event.VerifTypeSub] {
		return fmt.Sprintf("Subscriptions() visits %d entries, model %d", n, perType[event.VerifTypeSub])
	}
	return ""
}

// RunCrdtCase executes a history.
func RunCrdtCase(c CrdtCase, chk CrdtChecks) Result {
	universe := CrdtEvents()
	saved := crdt.Now
	clk := int64(1)
	crdt.Now = func() int64 { return clk }
	defer func() { crdt.Now = saved }()

	n := len(c.Durable)
	reps := make([]*event.State, n)
	models := make([]lww, n)
	for i := range reps {
		if c.Durable[i] {
			reps[i] = event.NewState(":memory:")
		} else {
			reps[i] = event.NewState("")
		}
		models[i] = lww{}
	}
	defer func() {
		for _, r := range reps {
			r.Close()
		}
	}()
	var pool []*payload
	labels := map[string]bool{}
	touched := map[int]bool{}
	tie, redeliver, mixedDelta := false, false, false

	merge := func(step string, dst int, in *event.State, pm lww) (*payload, string) {
		// model: what must change
		want := lww{}
		for k, p := range pm {
			l := models[dst][k]
			var d times
			if p.add > l.add {
				d.add, l.add = p.add, p.add
			}
			if p.del > l.del {
				d.del, l.del = p.del, p.del
			}
			if p.add != 0 && p.add <= models[dst][k].add || p.del != 0 && p.del <= models[dst][k].del {
				if p.add == models[dst][k].add && p.add != 0 || p.del == models[dst][k].del && p.del != 0 {
					tie = true
				}
			}
			if d != (times{}) {
				want[k] = d
				if (d.add == 0) != (d.del == 0) && p.add != 0 && p.del != 0 {
					mixedDelta = true // one field changed, the other did not
				}
			}
			models[dst][k] = l
		}
		ret := reps[dst].Merge(in)
		touched[dst] = true
		if chk.Delta {
			if (ret == nil) != (len(want) == 0) {
				return nil, fmt.Sprintf("%s: Merge returned nil=%v but %d entries changed the receiver (expected delta %v)", step, ret == nil, len(want), want)
			}
			if ret != nil {
				got := stateOf(ret.(*event.State), universe)
				if d := diffLww(got, want); d != "" {
					return nil, fmt.Sprintf("%s: delta returned by Merge is not exactly what changed: %s (delta %v, expected %v)", step, d, got, want)
				}
				for _, typ := range []uint8{event.VerifTypeSub, event.VerifTypeBan, event.VerifTypeConn} {
					cnt := 0
					for k := range want {
						if k[0] == byte('0'+typ) {
							cnt++
						}
					}
					if got := ret.(*event.State).VerifSubset(typ).Count(); got != cnt {
						return nil, fmt.Sprintf("%s: delta subset %d carries %d entries, %d changed", step, typ, got, cnt)
					}
				}
			}
		}
		if ret == nil {
			return nil, ""
		}
		return &payload{obj: ret.(*event.State), model: want, kind: "delta"}, ""
	}

	for i, op := range c.Ops {
		step := fmt.Sprintf("step %d %+v", i, op)
		switch op.K {
		case "add", "del":
			ev := universe[op.Ev]
			clk = op.T
			single := event.NewState("")
			m := models[op.R][mkey(ev)]
			pm := times{}
			if op.K == "add" {
				reps[op.R].Add(ev)
				single.Add(ev)
				pm.add = op.T
				if op.T <= m.add {
					labels["backwards-or-tied-clock"] = true
					tie = true
				} else {
					m.add = op.T
				}
			} else {
				reps[op.R].Del(ev)
				single.Del(ev)
				pm.del = op.T
				if op.T <= m.del {
					labels["backwards-or-tied-clock"] = true
					tie = true
				} else {
					m.del = op.T
				}
			}
			if m != (times{}) {
				models[op.R][mkey(ev)] = m
			}
			touched[op.R] = true
			pool = append(pool, &payload{obj: single, model: lww{mkey(ev): pm}, kind: "op"})
		case "full":
			enc := reps[op.R].Encode()
			in, err := event.DecodeState(enc[0])
			if err != nil {
				return Failf("%s: a snapshot does not decode: %v", step, err)
			}
			pool = append(pool, &payload{obj: in, model: models[op.R].clone(), kind: "full"})
			labels["snapshot"] = true
			if c.Durable[op.R] {
				labels["durable-snapshot"] = true
			}
		case "ship":
			if len(pool) == 0 {
				continue
			}
			pi := op.P % len(pool)
			p := pool[pi]
			in := p.obj
			if op.Hop {
				enc := p.obj.Encode()
				if op.Alien {
					enc[0] = withAlienSubset(enc[0])
					labels["payload-with-unknown-subset"] = true
				}
				var err error
				if in, err = event.DecodeState(enc[0]); err != nil {
					return Failf("%s: payload does not decode: %v", step, err)
				}
				redeliver = true // the pooled payload stays deliverable: duplication
			} else {
				pool = append(pool[:pi], pool[pi+1:]...)
			}
			labels["ship-"+p.kind] = true
			d, msg := merge(step, op.R, in, p.model)
			if msg != "" {
				return Result{Fail: msg}
			}
			if d != nil {
				pool = append(pool, d)
			}
		}
		if chk.State {
			for r := range reps {
				if msg := checkReplica(reps[r], models[r], universe); msg != "" {
					return Failf("%s: replica %d (durable=%v): %s", step, r, c.Durable[r], msg)
				}
			}
		}
	}
	// final exchange: full snapshots all-to-all in a drawn order; afterwards all replicas are identical
	if chk.State {
		type pair struct{ i, j int }
		var pairs []pair
		for i := 0; i < n; i++ {
			for j := 0; j < n; j++ {
				if i != j {
					pairs = append(pairs, pair{i, j})
				}
			}
		}
		for k := 0; len(pairs) > 0; k++ {
			x := 0
			if k < len(c.Final) {
				x = c.Final[k] % len(pairs)
			}
			p := pairs[x]
			pairs = append(pairs[:x], pairs[x+1:]...)
			in, err := event.DecodeState(reps[p.i].Encode()[0])
			if err != nil {
				return Failf("final: snapshot of replica %d does not decode: %v", p.i, err)
			}
			if _, msg := merge(fmt.Sprintf("final %d->%d", p.i, p.j), p.j, in, models[p.i].clone()); msg != "" {
				return Result{Fail: msg}
			}
		}
		for r := range reps {
			if msg := checkReplica(reps[r], models[r], universe); msg != "" {
				return Failf("after the final exchange: replica %d: %s", r, msg)
			}
			if d := diffLww(stateOf(reps[r], universe), stateOf(reps[0], universe)); d != "" {
				return Failf("after every replica received every other's snapshot, replicas 0 and %d differ: %s", r, d)
			}
		}
	}
	res := Result{}
	if chk.Delta {
		res.NonTrivial = mixedDelta
	} else {
		res.NonTrivial = len(touched) >= 3 && tie && redeliver
	}
	for l := range labels {
		res.Labels = append(res.Labels, l)
	}
	for _, d := range c.Durable {
		if d {
			res.Labels = append(res.Labels, "has-durable-replica")
			break
		}
	}
	sort.Strings(res.Labels)
	return res
}

// withAlienSubset re-encodes a state payload with one more subset (type 7, one entry added at time 5).
func withAlienSubset(enc []byte) []byte {
	raw, err := snappy.Decode(nil, enc)
	if err != nil {
		panic(err)
	}
	n, k := binary.Uvarint(raw)
	var out []byte
	var b [10]byte
	out = append(out, b[:binary.PutUvarint(b[:], n+1)]...)
	out = append(out, raw[k:]...)
	key := []byte("entry-of-a-newer-version")
	val := make([]byte, 16)
	binary.BigEndian.PutUint64(val, 5)
	out = append(out, 7, 1, byte(len(key)))
	out = append(out, key...)
	out = append(out, byte(len(val)))
	out = append(out, val...)
	return snappy.Encode(nil, out)
}
