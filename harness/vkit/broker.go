//go:build verif

package vkit

import (
	"bytes"
	"context"
	"crypto/sha256"
	"encoding/base64"
	"encoding/binary"
	"encoding/json"
	"errors"
	"fmt"
	"io"
	"net"
	"os"
	"strings"
	"sync"
	"time"

	"github.com/eclipse/paho.mqtt.golang/packets"
	econfig "github.com/emitter-io/config"
	"github.com/emitter-io/emitter/internal/broker"
	"github.com/emitter-io/emitter/internal/config"
	"github.com/emitter-io/emitter/internal/provider/logging"
	"github.com/emitter-io/emitter/internal/security"
	"github.com/emitter-io/emitter/internal/security/license"
)

// WaitCeiling is how long a protocol barrier may take before it is reported ("hang").
var WaitCeiling = 180 * time.Second // generous: on a saturated machine (load 200+) a broker round trip has been seen to take more than 30 s

type quietLogger struct{}

func (quietLogger) Name() string                           { return "quiet" }
func (quietLogger) Configure(map[string]interface{}) error { return nil }
func (quietLogger) Printf(string, ...interface{})          {}

// Quiet silences emitter's logging (exported logging.Logger variable).
func Quiet() { logging.Logger = quietLogger{} }

func detBytes(seed string, n int) []byte {
	var out []byte
	for i := 0; len(out) < n; i++ {
		h := sha256.Sum256([]byte(fmt.Sprintf("%s/%d", seed, i)))
		out = append(out, h[:]...)
	}
	return out[:n]
}

// DetLicense builds a deterministic license of the given version from a seed string.
func DetLicense(version int, seed string) license.License {
	u := binary.BigEndian.Uint32(detBytes(seed+"/user", 4))
	s := binary.BigEndian.Uint32(detBytes(seed+"/sign", 4))
	switch version {
	case 1:
		return &license.V1{EncryptionKey: base64.RawURLEncoding.EncodeToString(detBytes(seed+"/key", 16)), User: u, Sign: s,
			Expires: time.Unix(0, 0), Type: license.LicenseTypeOnPremise}
	case 2:
		return &license.V2{EncryptionKey: detBytes(seed+"/key", 32), EncryptionSalt: detBytes(seed+"/salt", 24), User: u, Sign: s, Index: 1}
	default:
		return &license.V3{EncryptionKey: detBytes(seed+"/key", 32), EncryptionSalt: detBytes(seed+"/salt", 16), User: u, Sign: s, Index: 1}
	}
}

// BrokerOpts configures an in-process broker.
type BrokerOpts struct {
	LicVersion int    // 1, 2 or 3 (default 1)
	LicSeed    string // seed of the deterministic license
	Storage    string // "", "inmemory", "ssd"
	Dir        string // state directory (created if empty)
	Node       string // cluster node name, default 00:00:00:00:00:01
	Matcher    string // "" or "mqtt"
	Retention  int    // storage retain seconds (0: provider default)
	ReadRate   int    // per-connection read rate limit (messages per second, 0: default)
}

// Broker is an in-process emitter service that is never listening: clients are attached through pipes.
type Broker struct {
	S      *broker.Service
	Lic    license.License
	Cipher license.Cipher
	Master string // encrypted master key
	Dir    string
	ownDir bool
}

// NewBroker starts a service.
func NewBroker(o BrokerOpts) (*Broker, error) {
	if o.LicVersion == 0 {
		o.LicVersion = 1
	}
	if o.LicSeed == "" {
		o.LicSeed = "verif"
	}
	if o.Node == "" {
		o.Node = "00:00:00:00:00:01"
	}
	b := &Broker{Lic: DetLicense(o.LicVersion, o.LicSeed), Dir: o.Dir}
	if b.Dir == "" {
		d, err := os.MkdirTemp(OutDir(), "broker")
		if err != nil {
			return nil, err
		}
		b.Dir, b.ownDir = d, true
	}
	cfg := config.NewDefault().(*config.Config)
	cfg.License = b.Lic.String()
	cfg.Matcher = o.Matcher
	cfg.Limit.ReadRate = o.ReadRate
	cfg.Cluster = &config.ClusterConfig{NodeName: o.Node, ListenAddr: ":4000", AdvertiseAddr: ":4001", Directory: b.Dir}
	// the default "self" monitor publishes stats/<node>/ messages into the license contract every few seconds,
	// which wildcard subscribers of the harness would receive; use the no-op sink
	cfg.Monitor = &econfig.ProviderConfig{Provider: "noop"}
	switch o.Storage {
	case "":
		cfg.Storage = nil
	case "inmemory":
		cfg.Storage = &econfig.ProviderConfig{Provider: "inmemory", Config: map[string]interface{}{}}
	case "ssd":
		cfg.Storage = &econfig.ProviderConfig{Provider: "ssd", Config: map[string]interface{}{"dir": b.Dir}}
	}
	if o.Retention != 0 && cfg.Storage != nil {
		cfg.Storage.Config["retain"] = float64(o.Retention)
	}
	s, err := broker.NewService(context.Background(), cfg)
	Quiet() // NewService installs the stderr logger
	if err != nil {
		return nil, err
	}
	b.S = s
	if b.Cipher, err = b.Lic.Cipher(); err != nil {
		return nil, err
	}
	mk := security.Key(make([]byte, 24))
	mk.SetSalt(777)
	mk.SetMaster(uint16(b.Lic.Master()))
	mk.SetContract(b.Lic.Contract())
	mk.SetSignature(b.Lic.Signature())
	mk.SetPermissions(security.AllowMaster)
	if b.Master, err = b.Cipher.EncryptKey(mk); err != nil {
		return nil, err
	}
	return b, nil
}

// Close stops the service and removes its directory if the helper created it.
func (b *Broker) Close() {
	b.S.Close()
	if b.ownDir {
		os.RemoveAll(b.Dir)
	}
}

// RawKey builds a channel key of this broker's contract field by field.
func (b *Broker) RawKey(target string, perm uint8, expires time.Time, salt uint16) security.Key {
	k := security.Key(make([]byte, 24))
	k.SetSalt(salt)
	k.SetMaster(uint16(b.Lic.Master()))
	k.SetContract(b.Lic.Contract())
	k.SetSignature(b.Lic.Signature())
	k.SetPermissions(perm)
	k.SetExpires(expires)
	if err := k.SetTarget(target); err != nil {
		panic("harness: bad key target " + target + ": " + err.Error())
	}
	return k
}

// Key returns the encrypted form of RawKey.
func (b *Broker) Key(target string, perm uint8) string {
	s, err := b.Cipher.EncryptKey(b.RawKey(target, perm, time.Unix(0, 0), 4242))
	if err != nil {
		panic(err)
	}
	return s
}

// Encrypt encrypts a raw key with the license cipher.
func (b *Broker) Encrypt(k security.Key) string {
	s, err := b.Cipher.EncryptKey(k)
	if err != nil {
		panic(err)
	}
	return s
}

// ---------------------------------------------------------------------------------------------

type sigConn struct {
	net.Conn
	once sync.Once
	done chan struct{}
}

func (s *sigConn) Close() error {
	err := s.Conn.Close()
	s.once.Do(func() { close(s.done) })
	return err
}

// Client is a test client on a pipe, decoding with paho's independent MQTT codec.
type Client struct {
	Conn   net.Conn
	In     chan packets.ControlPacket
	Closed chan struct{} // closed when the broker has finished Conn.Close() (which ends with socket.Close())
	Name   string
	mu     sync.Mutex
	raw    bytes.Buffer
	rerr   error
	gate   sync.Mutex // held while the client is paused (a slow consumer: the broker's writes to it block)
}

// Pause stops the client from reading its socket (after at most one more packet): a slow consumer.
func (c *Client) Pause() { c.gate.Lock() }

// Resume lets the client read again.
func (c *Client) Resume() { c.gate.Unlock() }

type teeReader struct {
	r io.Reader
	c *Client
}

func (t teeReader) Read(p []byte) (int, error) {
	n, err := t.r.Read(p)
	if n > 0 {
		t.c.mu.Lock()
		if t.c.raw.Len() < 1<<20 {
			t.c.raw.Write(p[:n])
		}
		t.c.mu.Unlock()
	}
	return n, err
}

// Attach connects a new pipe client to the broker through the real accept path (no CONNECT is sent).
func (b *Broker) Attach(name string) *Client {
	a, srv := net.Pipe()
	sc := &sigConn{Conn: srv, done: make(chan struct{})}
	cl := &Client{Conn: a, In: make(chan packets.ControlPacket, 200000), Closed: sc.done, Name: name}
	b.S.VerifAttach(sc)
	go func() {
		r := teeReader{a, cl}
		for {
			cl.gate.Lock()
			cl.gate.Unlock()
			p, err := packets.ReadPacket(r)
			if err != nil {
				cl.mu.Lock()
				cl.rerr = err
				cl.mu.Unlock()
				close(cl.In)
				return
			}
			cl.In <- p
		}
	}()
	return cl
}

// ReadErr returns the error that ended the reader (nil while running).
func (c *Client) ReadErr() error {
	c.mu.Lock()
	defer c.mu.Unlock()
	return c.rerr
}

// Write sends raw bytes; the error is returned (a closed pipe is not a harness failure).
func (c *Client) Write(b []byte) error {
	c.Conn.SetWriteDeadline(time.Now().Add(WaitCeiling))
	_, err := c.Conn.Write(b)
	return err
}

// Send encodes with paho and writes.
func (c *Client) Send(p packets.ControlPacket) error {
	var buf bytes.Buffer
	if err := p.Write(&buf); err != nil {
		return err
	}
	return c.Write(buf.Bytes())
}

// ErrTimeout is returned when a barrier is not answered within WaitCeiling.
var ErrTimeout = errors.New("no response within the wait ceiling")

// ErrClosed is returned when the connection ended while waiting.
var ErrClosed = errors.New("connection closed")

// Until reads packets until one of type typ arrives. PUBLISH packets seen before it are returned.
func (c *Client) Until(typ byte) (pubs []*packets.PublishPacket, got packets.ControlPacket, err error) {
	deadline := time.After(WaitCeiling)
	for {
		select {
		case m, ok := <-c.In:
			if !ok {
				return pubs, nil, ErrClosed
			}
			if p, isPub := m.(*packets.PublishPacket); isPub && typ != packets.Publish {
				pubs = append(pubs, p)
				continue
			}
			if typeOf(m) == typ {
				return pubs, m, nil
			}
			return pubs, m, fmt.Errorf("unexpected packet %s while waiting for type %d", m.String(), typ)
		case <-deadline:
			return pubs, nil, ErrTimeout
		}
	}
}

func typeOf(p packets.ControlPacket) byte {
	switch p.(type) {
	case *packets.ConnectPacket:
		return packets.Connect
	case *packets.ConnackPacket:
		return packets.Connack
	case *packets.PublishPacket:
		return packets.Publish
	case *packets.PubackPacket:
		return packets.Puback
	case *packets.SubackPacket:
		return packets.Suback
	case *packets.UnsubackPacket:
		return packets.Unsuback
	case *packets.PingrespPacket:
		return packets.Pingresp
	case *packets.PingreqPacket:
		return packets.Pingreq
	case *packets.DisconnectPacket:
		return packets.Disconnect
	case *packets.SubscribePacket:
		return packets.Subscribe
	case *packets.UnsubscribePacket:
		return packets.Unsubscribe
	}
	return 0
}

// Will describes a last-will.
type Will struct {
	Topic   string
	Payload string
	Retain  bool
	QoS     byte
}

// Connect sends CONNECT and waits for CONNACK.
func (c *Client) Connect(clientID, username string, will *Will) error {
	p := packets.NewControlPacket(packets.Connect).(*packets.ConnectPacket)
	p.ProtocolName, p.ProtocolVersion = "MQTT", 4
	p.ClientIdentifier = clientID
	p.CleanSession = true
	p.Keepalive = 60
	if username != "" {
		p.UsernameFlag, p.Username = true, username
	}
	if will != nil {
		p.WillFlag, p.WillTopic, p.WillMessage, p.WillRetain, p.WillQos = true, will.Topic, []byte(will.Payload), will.Retain, will.QoS
	}
	if err := c.Send(p); err != nil {
		return err
	}
	_, ack, err := c.Until(packets.Connack)
	if err != nil {
		return err
	}
	if rc := ack.(*packets.ConnackPacket).ReturnCode; rc != 0 {
		return fmt.Errorf("connack code %d", rc)
	}
	return nil
}

// Barrier sends PINGREQ and waits for PINGRESP: everything the broker wrote to this client before it has been read.
func (c *Client) Barrier() ([]*packets.PublishPacket, error) {
	if err := c.Send(packets.NewControlPacket(packets.Pingreq)); err != nil {
		return nil, err
	}
	pubs, _, err := c.Until(packets.Pingresp)
	return pubs, err
}

// Subscribe sends one SUBSCRIBE with the given topics; returns the return codes and the publishes read before the SUBACK.
func (c *Client) Subscribe(id uint16, topics ...string) ([]byte, []*packets.PublishPacket, error) {
	p := packets.NewControlPacket(packets.Subscribe).(*packets.SubscribePacket)
	p.MessageID = id
	p.Topics = topics
	p.Qoss = make([]byte, len(topics))
	if err := c.Send(p); err != nil {
		return nil, nil, err
	}
	pubs, ack, err := c.Until(packets.Suback)
	if err != nil {
		return nil, pubs, err
	}
	sa := ack.(*packets.SubackPacket)
	if sa.MessageID != id {
		return sa.ReturnCodes, pubs, fmt.Errorf("SUBACK id %d for request %d", sa.MessageID, id)
	}
	return sa.ReturnCodes, pubs, nil
}

// Unsubscribe sends one UNSUBSCRIBE and waits for the UNSUBACK.
func (c *Client) Unsubscribe(id uint16, topics ...string) ([]*packets.PublishPacket, error) {
	p := packets.NewControlPacket(packets.Unsubscribe).(*packets.UnsubscribePacket)
	p.MessageID = id
	p.Topics = topics
	if err := c.Send(p); err != nil {
		return nil, err
	}
	pubs, ack, err := c.Until(packets.Unsuback)
	if err != nil {
		return pubs, err
	}
	if ack.(*packets.UnsubackPacket).MessageID != id {
		return pubs, fmt.Errorf("UNSUBACK id mismatch")
	}
	return pubs, nil
}

// Publish sends a QoS-1 PUBLISH and waits for its PUBACK (sent after the synchronous fan-out).
func (c *Client) Publish(id uint16, topic string, payload []byte, retain bool) ([]*packets.PublishPacket, error) {
	p := packets.NewControlPacket(packets.Publish).(*packets.PublishPacket)
	p.Qos, p.MessageID, p.TopicName, p.Payload, p.Retain = 1, id, topic, payload, retain
	if err := c.Send(p); err != nil {
		return nil, err
	}
	pubs, ack, err := c.Until(packets.Puback)
	if err != nil {
		return pubs, err
	}
	if ack.(*packets.PubackPacket).MessageID != id {
		return pubs, fmt.Errorf("PUBACK id mismatch")
	}
	return pubs, nil
}

// Request sends an emitter/<name>/ request (QoS 1) and returns the response payloads by topic.
func (c *Client) Request(id uint16, name string, body interface{}) ([]*packets.PublishPacket, error) {
	b, err := json.Marshal(body)
	if err != nil {
		return nil, err
	}
	return c.Publish(id, "emitter/"+name+"/", b, false)
}

// Close closes the client side and waits until the broker has cleaned the connection up.
func (c *Client) Close() error {
	c.Conn.Close()
	select {
	case <-c.Closed:
		return nil
	case <-time.After(WaitCeiling):
		return ErrTimeout
	}
}

// WaitClosed waits for the broker to finish closing the connection.
func (c *Client) WaitClosed() error {
	select {
	case <-c.Closed:
		return nil
	case <-time.After(WaitCeiling):
		return ErrTimeout
	}
}

// IsErrorReply tells whether a publish is an emitter/error/ reply and returns its status and request id.
func IsErrorReply(p *packets.PublishPacket) (status int, req int, ok bool) {
	if !strings.HasPrefix(p.TopicName, "emitter/error") {
		return 0, 0, false
	}
	var e struct {
		Status  int `json:"status"`
		Request int `json:"req"`
	}
	if json.Unmarshal(p.Payload, &e) != nil {
		return 0, 0, false
	}
	return e.Status, e.Request, true
}

// LicKey builds and encrypts a key of the given license without a running broker (child workers use the same
// deterministic license, so the parent can address them with valid keys).
func LicKey(lic license.License, target string, perm uint8, expires time.Time, salt uint16) string {
	k := security.Key(make([]byte, 24))
	k.SetSalt(salt)
	k.SetMaster(uint16(lic.Master()))
	k.SetContract(lic.Contract())
	k.SetSignature(lic.Signature())
	k.SetPermissions(perm)
	k.SetExpires(expires)
	if target != "" {
		if err := k.SetTarget(target); err != nil {
			panic(err)
		}
	}
	c, err := lic.Cipher()
	if err != nil {
		panic(err)
	}
	s, err := c.EncryptKey(k)
	if err != nil {
		panic(err)
	}
	return s
}
