//go:build verif

package vkit

import (
	"sort"

	"github.com/weaveworks/mesh"
)

// GSender is a line-by-line transcription of weaveworks/mesh's gossipSender (gossip.go: Send, Broadcast, pick)
// without the goroutine: the harness decides when a pick happens. Two buckets, as in mesh: the "gossip" bucket
// (Send: periodic / topology-driven full state and relayed deltas) and one broadcast bucket per source peer.
// Coalescing is mesh's own: `pending = pending.Merge(new)`.
type GSender struct {
	gossip     mesh.GossipData
	broadcasts map[mesh.PeerName]mesh.GossipData
	Coalesced  int // number of pending.Merge(new) calls performed
	NilMerges  int // times a bucket held a nil payload (an earlier pending.Merge(new) returned nil) when the next payload arrived:
	// mesh calls Merge on that nil interface and panics on the caller's goroutine; the transcription counts it and replaces the bucket
}

// NewGSender returns an empty sender.
func NewGSender() *GSender { return &GSender{broadcasts: map[mesh.PeerName]mesh.GossipData{}} }

// Send accumulates into the gossip bucket (mesh: gossipSender.Send).
func (s *GSender) Send(data mesh.GossipData) {
	if s.gossip == nil {
		s.gossip = data
	} else {
		s.Coalesced++
		s.gossip = s.gossip.Merge(data)
	}
}

// Broadcast accumulates under the source name (mesh: gossipSender.Broadcast).
func (s *GSender) Broadcast(src mesh.PeerName, data mesh.GossipData) {
	d, found := s.broadcasts[src]
	if found && d == nil {
		s.NilMerges++
		s.broadcasts[src] = data
		return
	}
	if !found {
		s.broadcasts[src] = data
	} else {
		s.Coalesced++
		s.broadcasts[src] = d.Merge(data)
	}
}

// Empty tells whether nothing is pending.
func (s *GSender) Empty() bool { return s.gossip == nil && len(s.broadcasts) == 0 }

// PendingBroadcast tells whether a payload of src is already queued (used by the non-coalescing schedule classes).
func (s *GSender) PendingBroadcast(src mesh.PeerName) bool { _, ok := s.broadcasts[src]; return ok }

// PendingGossip tells whether the gossip bucket is occupied.
func (s *GSender) PendingGossip() bool { return s.gossip != nil }

// WireMsg is one protocol message put on a link.
type WireMsg struct {
	Kind string // "gossip" | "broadcast" | "unicast"
	Src  mesh.PeerName
	Buf  []byte
	Dst  mesh.PeerName // unicast only
}

// Pick takes one piece of pending data (gossip first, as in mesh; broadcasts in source-name order instead of map
// order so that runs are reproducible) and returns its encoded messages. ok=false when nothing was pending.
func (s *GSender) Pick() (out []WireMsg, ok bool) {
	switch {
	case s.gossip != nil:
		d := s.gossip
		s.gossip = nil
		for _, b := range d.Encode() {
			out = append(out, WireMsg{Kind: "gossip", Buf: append([]byte(nil), b...)})
		}
		return out, true
	case len(s.broadcasts) > 0:
		names := make([]mesh.PeerName, 0, len(s.broadcasts))
		for n := range s.broadcasts {
			names = append(names, n)
		}
		sort.Slice(names, func(i, j int) bool { return names[i] < names[j] })
		src := names[0]
		d := s.broadcasts[src]
		delete(s.broadcasts, src)
		if d == nil { // pending.Merge(new) returned nil: mesh's deliver() sees data == nil and stops
			return nil, true
		}
		for _, b := range d.Encode() {
			out = append(out, WireMsg{Kind: "broadcast", Src: src, Buf: append([]byte(nil), b...)})
		}
		return out, true
	}
	return nil, false
}
