//go:build verif

package vkit

import "strings"

// Levels splits "a/b/c/" into its levels.
func Levels(ch string) []string {
	ch = strings.TrimSuffix(ch, "/")
	if ch == "" {
		return nil
	}
	return strings.Split(ch, "/")
}

// Match is the reference channel matcher, written from the property statement (not from subtrie.go).
// emitter mode: the filter is a level-wise prefix of the channel, '+' matches any one level.
// mqtt mode: same depth, '+' matches one level, a trailing '#' matches one or more further levels.
func Match(mqtt bool, f, c []string) bool {
	if !mqtt {
		if len(f) > len(c) {
			return false
		}
		for i := range f {
			if f[i] != "+" && f[i] != c[i] {
				return false
			}
		}
		return true
	}
	if len(f) > 0 && f[len(f)-1] == "#" {
		p := f[:len(f)-1]
		if len(c) < len(p)+1 {
			return false
		}
		for i := range p {
			if p[i] != "+" && p[i] != c[i] {
				return false
			}
		}
		return true
	}
	if len(f) != len(c) {
		return false
	}
	for i := range f {
		if f[i] != "+" && f[i] != c[i] {
			return false
		}
	}
	return true
}

// MatchStr is Match on channel strings.
func MatchStr(mqtt bool, filter, channel string) bool {
	return Match(mqtt, Levels(filter), Levels(channel))
}
