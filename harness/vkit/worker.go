//go:build verif

package vkit

import (
	"bufio"
	"bytes"
	"encoding/binary"
	"errors"
	"fmt"
	"io"
	"os"
	"os/exec"
	"regexp"
	"strings"
	"sync"
	"time"
)

// Child workers: inputs that can take the whole process down (unrecovered panic on a foreign goroutine,
// "fatal error: out of memory") are executed in a re-executed copy of the test binary. The parent streams
// length-prefixed inputs and waits for a length-prefixed reply per input, so when the child dies the
// unacknowledged input is exactly the culprit.

var workerFns = map[string]func(in []byte) []byte{}

// RegisterWorker registers a child-side handler (call from init()).
func RegisterWorker(name string, fn func(in []byte) []byte) { workerFns[name] = fn }

func runChild(name string) {
	fn, ok := workerFns[name]
	if !ok {
		fmt.Fprintln(os.Stderr, "verif child: unknown worker", name)
		os.Exit(3)
	}
	Quiet()
	in := bufio.NewReader(os.Stdin)
	out := bufio.NewWriter(os.Stdout)
	for {
		var n uint32
		if err := binary.Read(in, binary.LittleEndian, &n); err != nil {
			return
		}
		buf := make([]byte, n)
		if _, err := io.ReadFull(in, buf); err != nil {
			return
		}
		res := fn(buf)
		binary.Write(out, binary.LittleEndian, uint32(len(res)))
		out.Write(res)
		out.Flush()
	}
}

type tailBuffer struct {
	sync.Mutex
	b []byte
}

func (t *tailBuffer) Write(p []byte) (int, error) {
	t.Lock()
	t.b = append(t.b, p...)
	if len(t.b) > 1<<17 {
		// keep the head (the panic message and first stack) and the tail
		t.b = append(t.b[:1<<16], t.b[len(t.b)-(1<<15):]...)
	}
	t.Unlock()
	return len(p), nil
}

func (t *tailBuffer) String() string {
	t.Lock()
	defer t.Unlock()
	return string(t.b)
}

// Worker is the parent-side handle of a child process.
type Worker struct {
	Name    string
	LimitKB int
	cmd     *exec.Cmd
	stdin   io.WriteCloser
	stdout  *bufio.Reader
	stderr  *tailBuffer
}

// Died describes the death of a child while it executed an input.
type Died struct {
	Stderr string
	Hang   bool
}

func (d *Died) Error() string {
	if d.Hang {
		return "child did not answer within the ceiling (hang)"
	}
	return "child died: " + d.Summary()
}

var fatalRe = regexp.MustCompile(`(?m)^(panic: .*|fatal error: .*|runtime: out of memory.*|.*cannot allocate memory.*)$`)
var frameRe = regexp.MustCompile(`(?m)^(github\.com/emitter-io/emitter/internal/[^\s(]+(?:\([^)]*\))?[^\s(]*)\(`)

// Summary is the first fatal line of the child's stderr.
func (d *Died) Summary() string {
	if m := fatalRe.FindString(d.Stderr); m != "" {
		return m
	}
	s := strings.TrimSpace(d.Stderr)
	if len(s) > 200 {
		s = s[len(s)-200:]
	}
	return "(no fatal line) " + s
}

// OOM tells whether the death was an out-of-memory abort.
func (d *Died) OOM() bool {
	return strings.Contains(d.Stderr, "out of memory") || strings.Contains(d.Stderr, "cannot allocate memory")
}

// Frames lists the emitter frames (non-harness) of the first goroutine stack in the child's stderr, top first.
func (d *Died) Frames() []string {
	s := d.Stderr
	if i := strings.Index(s, "goroutine "); i >= 0 {
		s = s[i:]
	}
	if i := strings.Index(s, "\n\n"); i >= 0 {
		s = s[:i]
	}
	var out []string
	for _, m := range frameRe.FindAllStringSubmatch(s, -1) {
		f := strings.TrimPrefix(m[1], "github.com/emitter-io/emitter/internal/")
		if strings.HasPrefix(f, "verif/") {
			continue
		}
		out = append(out, f)
	}
	return out
}

// TopFrame is the innermost emitter frame of the abort, or "".
func (d *Died) TopFrame() string {
	if f := d.Frames(); len(f) > 0 {
		return f[0]
	}
	return ""
}

// StartWorker launches the child. limitKB > 0 sets an address-space ceiling (ulimit -v).
func StartWorker(name string, limitKB int, extraEnv ...string) (*Worker, error) {
	w := &Worker{Name: name, LimitKB: limitKB, stderr: &tailBuffer{}}
	self, err := os.Executable()
	if err != nil {
		return nil, err
	}
	if limitKB > 0 {
		w.cmd = exec.Command("/bin/sh", "-c", fmt.Sprintf("ulimit -v %d; exec \"$0\" -test.run '^$'", limitKB), self)
	} else {
		w.cmd = exec.Command(self, "-test.run", "^$")
	}
	w.cmd.Env = append(os.Environ(), "VERIF_CHILD="+name, "GOTRACEBACK=all")
	w.cmd.Env = append(w.cmd.Env, extraEnv...)
	w.cmd.Stderr = w.stderr
	if w.stdin, err = w.cmd.StdinPipe(); err != nil {
		return nil, err
	}
	so, err := w.cmd.StdoutPipe()
	if err != nil {
		return nil, err
	}
	w.stdout = bufio.NewReader(so)
	if err := w.cmd.Start(); err != nil {
		return nil, err
	}
	return w, nil
}

// ErrWorkerGone is returned when the worker was already dead before the input was sent.
var ErrWorkerGone = errors.New("worker not running")

// Do sends one input and waits for the reply.
func (w *Worker) Do(in []byte, ceiling time.Duration) ([]byte, error) {
	if w.cmd == nil {
		return nil, ErrWorkerGone
	}
	type res struct {
		out []byte
		err error
	}
	ch := make(chan res, 1)
	go func() {
		var hdr [4]byte
		binary.LittleEndian.PutUint32(hdr[:], uint32(len(in)))
		if _, err := w.stdin.Write(append(hdr[:], in...)); err != nil {
			ch <- res{nil, err}
			return
		}
		var n uint32
		if err := binary.Read(w.stdout, binary.LittleEndian, &n); err != nil {
			ch <- res{nil, err}
			return
		}
		buf := make([]byte, n)
		_, err := io.ReadFull(w.stdout, buf)
		ch <- res{buf, err}
	}()
	select {
	case r := <-ch:
		if r.err == nil {
			return r.out, nil
		}
		w.cmd.Process.Kill()
		w.cmd.Wait()
		w.cmd = nil
		return nil, &Died{Stderr: w.stderr.String()}
	case <-time.After(ceiling):
		w.cmd.Process.Kill()
		w.cmd.Wait()
		w.cmd = nil
		return nil, &Died{Stderr: w.stderr.String(), Hang: true}
	}
}

// Alive tells whether the child is running.
func (w *Worker) Alive() bool { return w.cmd != nil }

// Stop ends the child.
func (w *Worker) Stop() {
	if w.cmd != nil {
		w.stdin.Close()
		done := make(chan struct{})
		go func() { w.cmd.Wait(); close(done) }()
		select {
		case <-done:
		case <-time.After(5 * time.Second):
			w.cmd.Process.Kill()
			<-done
		}
		w.cmd = nil
	}
}

var _ = bytes.MinRead

// Kill terminates the child with SIGKILL (crash injection) and waits for it.
func (w *Worker) Kill() {
	if w.cmd != nil {
		w.cmd.Process.Kill()
		w.cmd.Wait()
		w.cmd = nil
	}
}
