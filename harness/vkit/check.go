//go:build verif

// Package vkit holds the shared pieces of the verification harness: the case recorder that produces
// measured evidence, the generic "generate a case value, run it against an oracle" wrapper around
// rapid, replay/corpus plumbing and the known-finding protocol.
package vkit

import (
	"encoding/binary"
	"encoding/json"
	"fmt"
	"hash/fnv"
	"os"
	"path/filepath"
	"runtime/debug"
	"sort"
	"strconv"
	"strings"
	"sync"
	"testing"

	"pgregory.net/rapid"
)

// Result is what running one generated case against the oracle yields.
type Result struct {
	Fail       string   // non-empty: the property was violated by this case (message for the report)
	Finding    string   // optional id of the known-finding matcher that accepts this failure
	NonTrivial bool     // the case is non-trivial by the property's stated rule
	Labels     []string // classes this case falls into (distribution is reported in the evidence)
	Excluded   bool     // the case was steered away from a listed finding / unspecified region (counted)
}

// OK is the empty passing result.
func OK(nontrivial bool, labels ...string) Result {
	return Result{NonTrivial: nontrivial, Labels: labels}
}

// Failf builds a failing result.
func Failf(format string, a ...interface{}) Result { return Result{Fail: fmt.Sprintf(format, a...)} }

type failure struct {
	Property string          `json:"property"`
	Test     string          `json:"test"`
	Msg      string          `json:"msg"`
	Finding  string          `json:"finding,omitempty"`
	Case     json.RawMessage `json:"case"`
}

type stats struct {
	sync.Mutex
	Evaluations  int64                      `json:"evaluations"`
	NonTrivial   int64                      `json:"nontrivial_total"`
	Excluded     int64                      `json:"excluded"`
	Labels       map[string]int64           `json:"labels"`
	PerTest      map[string]int64           `json:"per_test"`
	Samples      []json.RawMessage          `json:"samples"`
	FindingHits  map[string]int64           `json:"finding_hits"`
	FindingCases map[string]json.RawMessage `json:"finding_cases"`
	Probes       map[string]bool            `json:"probes"`
	ProbeNotes   map[string]string          `json:"probe_notes"`
	Failures     []failure                  `json:"failures"`
	Notes        map[string]string          `json:"notes"`
	fps          map[uint64]struct{}
	lateSample   int64
}

var st = &stats{
	Labels: map[string]int64{}, PerTest: map[string]int64{}, FindingHits: map[string]int64{},
	FindingCases: map[string]json.RawMessage{}, Probes: map[string]bool{}, ProbeNotes: map[string]string{},
	Notes: map[string]string{}, fps: map[uint64]struct{}{},
}

// OutDir is the per-process scratch/result directory handed over by the driver.
func OutDir() string {
	d := os.Getenv("VERIF_OUT")
	if d == "" {
		d = "."
	}
	return d
}

// Tier returns "quick" or "thorough".
func Tier() string {
	if os.Getenv("VERIF_TIER") == "thorough" {
		return "thorough"
	}
	return "quick"
}

// N returns the scale the driver asked for (VERIF_N), or def.
func N(def int) int {
	if v, err := strconv.Atoi(os.Getenv("VERIF_N")); err == nil && v > 0 {
		return v
	}
	return def
}

// Seed returns the per-shard seed for legs that do not run under rapid.
func Seed() int64 {
	if v, err := strconv.ParseInt(os.Getenv("VERIF_SHARD_SEED"), 10, 64); err == nil && v != 0 {
		return v
	}
	return 20260923
}

// Known tells whether a finding id is listed in KNOWN_FINDINGS.txt (the driver passes the list).
func Known(id string) bool {
	for _, k := range strings.Split(os.Getenv("VERIF_KNOWN"), ",") {
		if k == id && id != "" {
			return true
		}
		if strings.HasSuffix(k, "*") && strings.HasPrefix(id, strings.TrimSuffix(k, "*")) { // discovery runs only
			return true
		}
	}
	return false
}

func fingerprint(b []byte) uint64 {
	h := fnv.New64a()
	h.Write(b)
	return h.Sum64()
}

// Record accounts one explored case. c is the case value (JSON-encodable).
func Record(test string, c interface{}, r Result) {
	b, _ := json.Marshal(c)
	RecordRaw(test, b, r)
}

// RecordRaw is Record for an already encoded case.
func RecordRaw(test string, b []byte, r Result) {
	st.Lock()
	defer st.Unlock()
	st.Evaluations++
	st.PerTest[test]++
	for _, l := range r.Labels {
		st.Labels[l]++
	}
	if r.Excluded {
		st.Excluded++
	}
	if r.NonTrivial {
		st.NonTrivial++
		fp := fingerprint(b)
		if _, seen := st.fps[fp]; !seen {
			st.fps[fp] = struct{}{}
			n := int64(len(st.fps))
			if len(b) < 6000 {
				if !json.Valid(b) { // raw (non-JSON) case encodings are stored as a JSON string
					b, _ = json.Marshal(string(b))
				}
				if len(st.Samples) < 3 {
					st.Samples = append(st.Samples, append(json.RawMessage(nil), b...))
				} else if n&(n-1) == 0 { // keep the latest power-of-two-th distinct case as a "late" sample
					if len(st.Samples) < 4 {
						st.Samples = append(st.Samples, nil)
					}
					st.Samples[3] = append(json.RawMessage(nil), b...)
				}
			}
		}
	}
}

// Label adds to the class histogram without counting a case.
func Label(l string, n int64) {
	st.Lock()
	st.Labels[l] += n
	st.Unlock()
}

// Note stores a free-text note in the evidence.
func Note(k, v string) {
	st.Lock()
	st.Notes[k] = v
	st.Unlock()
}

// Probe reports whether the minimal reproduction of a listed finding still fails.
func Probe(id string, reproduced bool, note string) {
	st.Lock()
	st.Probes[id] = reproduced
	st.ProbeNotes[id] = note
	st.Unlock()
}

func saveFailure(f failure) {
	st.Lock()
	// keep only the latest failure per test: during shrinking the last one written is the minimal one
	out := st.Failures[:0]
	for _, o := range st.Failures {
		if o.Test != f.Test {
			out = append(out, o)
		}
	}
	st.Failures = append(out, f)
	st.Unlock()
	b, _ := json.MarshalIndent(f, "", " ")
	os.WriteFile(filepath.Join(OutDir(), "failure-"+sanitize(f.Test)+".json"), b, 0644)
}

func sanitize(s string) string {
	return strings.Map(func(r rune) rune {
		if r == '/' || r == ' ' {
			return '_'
		}
		return r
	}, s)
}

// ReportFailure records a violation found by a leg that does not go through Check.
func ReportFailure(test string, c interface{}, msg, finding string) {
	b, _ := json.Marshal(c)
	saveFailure(failure{Property: os.Getenv("VERIF_PROPERTY"), Test: test, Msg: msg, Finding: finding, Case: b})
}

// LastCase writes the case about to be executed, so that a process death can be attributed to it.
func LastCase(test string, c interface{}) {
	b, _ := json.Marshal(c)
	f := failure{Property: os.Getenv("VERIF_PROPERTY"), Test: test, Msg: "process died while executing this case", Case: b}
	fb, _ := json.Marshal(f)
	os.WriteFile(filepath.Join(OutDir(), "last-case.json"), fb, 0644)
}

// ClearLastCase removes the marker once the case has completed.
func ClearLastCase() { os.Remove(filepath.Join(OutDir(), "last-case.json")) }

// Flush writes the statistics of this process for the driver.
func Flush() {
	st.Lock()
	defer st.Unlock()
	dir := OutDir()
	b, _ := json.Marshal(st)
	os.WriteFile(filepath.Join(dir, "stats.json"), b, 0644)
	fp := make([]uint64, 0, len(st.fps))
	for k := range st.fps {
		fp = append(fp, k)
	}
	sort.Slice(fp, func(i, j int) bool { return fp[i] < fp[j] })
	buf := make([]byte, 8*len(fp))
	for i, v := range fp {
		binary.LittleEndian.PutUint64(buf[8*i:], v)
	}
	os.WriteFile(filepath.Join(dir, "fps.bin"), buf, 0644)
}

// Main is the TestMain body of every harness package.
func Main(m *testing.M) {
	if name := os.Getenv("VERIF_CHILD"); name != "" {
		runChild(name)
		os.Exit(0)
	}
	code := m.Run()
	Flush()
	os.Exit(code)
}

// Opt tunes Check.
type Opt struct {
	CrashSafe bool // write the case to last-case.json before running it (legs whose target can kill the process)
}

// Check is the one way properties are decided: gen draws a case value (all randomness inside rapid),
// run executes it against the real code and the oracle. Corpus cases (saved regression inputs) run first
// without rapid; VERIF_REPLAY runs a single saved case without rapid.
func Check[C any](t *testing.T, gen func(*rapid.T) C, run func(C) Result, opts ...Opt) {
	var opt Opt
	if len(opts) > 0 {
		opt = opts[0]
	}
	name := t.Name()
	exec := func(c C) (r Result) {
		if opt.CrashSafe {
			LastCase(name, c)
			defer ClearLastCase()
		}
		defer func() {
			if p := recover(); p != nil {
				r = Result{Fail: fmt.Sprintf("panic: %v\n%s", p, trimStack(debug.Stack()))}
			}
		}()
		return run(c)
	}
	handle := func(c C, r Result, fatal func(string)) {
		if r.Fail == "" {
			Record(name, c, r)
			return
		}
		b, _ := json.Marshal(c)
		if r.Finding != "" && Known(r.Finding) {
			st.Lock()
			st.FindingHits[r.Finding]++
			if _, ok := st.FindingCases[r.Finding]; !ok && len(b) < 6000 {
				st.FindingCases[r.Finding] = b
			}
			st.Unlock()
			r.Excluded = true
			Record(name, c, Result{Excluded: true, Labels: append(r.Labels, "finding:"+r.Finding)})
			return
		}
		saveFailure(failure{Property: os.Getenv("VERIF_PROPERTY"), Test: name, Msg: r.Fail, Finding: r.Finding, Case: b})
		fatal(r.Fail)
	}
	if p := os.Getenv("VERIF_REPLAY"); p != "" {
		var f failure
		data, err := os.ReadFile(p)
		if err != nil {
			t.Fatalf("replay: %v", err)
		}
		if err := json.Unmarshal(data, &f); err != nil {
			t.Fatalf("replay: %v", err)
		}
		if f.Test != name {
			t.Skip("replay file is for " + f.Test)
		}
		var c C
		if err := json.Unmarshal(f.Case, &c); err != nil {
			t.Fatalf("replay case: %v", err)
		}
		handle(c, exec(c), func(m string) { t.Fatalf("replayed case fails: %s", m) })
		return
	}
	if dir := os.Getenv("VERIF_CORPUS"); dir != "" {
		files, _ := filepath.Glob(filepath.Join(dir, sanitize(name), "*.json"))
		sort.Strings(files)
		for _, fn := range files {
			data, err := os.ReadFile(fn)
			if err != nil {
				continue
			}
			var f failure
			var c C
			if json.Unmarshal(data, &f) != nil || json.Unmarshal(f.Case, &c) != nil {
				t.Fatalf("corpus file %s does not decode", fn)
			}
			Label("corpus-cases", 1)
			handle(c, exec(c), func(m string) { t.Fatalf("corpus case %s fails: %s", fn, m) })
		}
	}
	rapid.Check(t, func(rt *rapid.T) {
		c := gen(rt)
		handle(c, exec(c), func(m string) { rt.Fatalf("%s", m) })
	})
}

func trimStack(b []byte) string {
	lines := strings.Split(string(b), "\n")
	var out []string
	for _, l := range lines {
		if strings.Contains(l, "emitter/internal/") && !strings.Contains(l, "internal/verif/") {
			out = append(out, strings.TrimSpace(l))
			if len(out) >= 12 {
				break
			}
		}
	}
	return strings.Join(out, "\n")
}
