//go:build verif

package vkit

import (
	"fmt"
	"sort"
	"sync"
	"time"

	"github.com/emitter-io/emitter/internal/event"
	"github.com/emitter-io/emitter/internal/event/crdt"
	"pgregory.net/rapid"
)

// One replica used by several goroutines at once, as in a broker: connection goroutines apply local operations while
// gossip goroutines merge incoming payloads and others read. The LWW join is commutative, so whatever the
// interleaving, once everything has been applied the replica must hold the pointwise maximum of all add / remove
// times. The harness owns part of the schedule: the clock hook crdt.Now is called by a local operation between its
// read and its write, and there the harness lets chosen merges run (to completion, or until they block on the
// replica's own lock) before the operation continues.

// RaceEntry is one entry of a merge payload.
type RaceEntry struct {
	Ev  int   `json:"ev"`
	Add int64 `json:"add"`
	Del int64 `json:"del"`
}

// RaceOp is a local operation; Release lists the payloads merged while this operation sits at its clock read.
type RaceOp struct {
	Del     bool  `json:"del,omitempty"`
	Ev      int   `json:"ev"`
	T       int64 `json:"t"`
	Warm    bool  `json:"warm,omitempty"` // the entry is looked up (Has) just before, as a broker authorizing a key does
	Release []int `json:"release,omitempty"`
}

// CrdtRaceCase is one replica, local operations and payloads.
type CrdtRaceCase struct {
	Durable  bool          `json:"durable"`
	Payloads [][]RaceEntry `json:"payloads"`
	Ops      []RaceOp      `json:"ops"`
}

// GenCrdtRace draws a case.
func GenCrdtRace(t *rapid.T) CrdtRaceCase {
	c := CrdtRaceCase{Durable: rapid.IntRange(0, 3).Draw(t, "durable") > 0}
	nev := len(CrdtEvents())
	np := rapid.IntRange(1, 5).Draw(t, "npayloads")
	for i := 0; i < np; i++ {
		var p []RaceEntry
		for j, m := 0, rapid.IntRange(1, 3).Draw(t, "nentries"); j < m; j++ {
			e := RaceEntry{Ev: rapid.IntRange(0, nev-1).Draw(t, "ev")}
			switch rapid.IntRange(0, 2).Draw(t, "shape") {
			case 0:
				e.Add = rapid.Int64Range(1, 9).Draw(t, "add")
			case 1:
				e.Del = rapid.Int64Range(1, 9).Draw(t, "del")
			default:
				e.Add, e.Del = rapid.Int64Range(1, 9).Draw(t, "add"), rapid.Int64Range(1, 9).Draw(t, "del")
			}
			p = append(p, e)
		}
		c.Payloads = append(c.Payloads, p)
	}
	for i, n := 0, rapid.IntRange(1, 8).Draw(t, "nops"); i < n; i++ {
		op := RaceOp{Del: rapid.Bool().Draw(t, "isdel"), Ev: rapid.IntRange(0, nev-1).Draw(t, "ev"), T: rapid.Int64Range(1, 9).Draw(t, "t"), Warm: rapid.IntRange(0, 2).Draw(t, "warm") > 0}
		if rapid.IntRange(0, 2).Draw(t, "rel") > 0 {
			op.Release = append(op.Release, rapid.IntRange(0, np-1).Draw(t, "p"))
			if rapid.IntRange(0, 3).Draw(t, "rel2") == 0 {
				op.Release = append(op.Release, rapid.IntRange(0, np-1).Draw(t, "p2"))
			}
		}
		c.Ops = append(c.Ops, op)
	}
	return c
}

// RunCrdtRace executes a case (C04: the replica ends at the join of everything).
func RunCrdtRace(c CrdtRaceCase) Result { return runCrdtRace(c, false) }

// RunCrdtRaceDelta additionally delivers every payload twice (two links carrying the same update) and checks the
// deltas the merges hand on (C13): a (key, time) pair becomes news for the replica at most once, so at most one merge
// may report it - and exactly one if no local operation could have set it.
func RunCrdtRaceDelta(c CrdtRaceCase) Result { return runCrdtRace(c, true) }

func runCrdtRace(c CrdtRaceCase, deltas bool) Result {
	universe := CrdtEvents()
	saved := crdt.Now
	defer func() { crdt.Now = saved }()
	var clk int64 = 1
	crdt.Now = func() int64 { return clk }

	// payloads are built and encoded up front (the clock hook is used as a scheduling point afterwards)
	enc := make([][]byte, len(c.Payloads))
	want := lww{}
	join := func(k string, t times) {
		w := want[k]
		if t.add > w.add {
			w.add = t.add
		}
		if t.del > w.del {
			w.del = t.del
		}
		want[k] = w
	}
	for i, p := range c.Payloads {
		st := event.NewState("")
		for _, e := range p {
			ev := universe[e.Ev]
			if e.Add != 0 {
				clk = e.Add
				st.Add(ev)
			}
			if e.Del != 0 {
				clk = e.Del
				st.Del(ev)
			}
		}
		// what the payload really carries (two entries for one event collapse inside the payload)
		for k, t := range stateOf(st, universe) {
			join(k, t)
		}
		enc[i] = st.Encode()[0]
	}
	var rep *event.State
	if c.Durable {
		rep = event.NewState(":memory:")
	} else {
		rep = event.NewState("")
	}
	defer rep.Close()

	var wg sync.WaitGroup
	var dmu sync.Mutex
	reported := map[string]int{} // "key|field|time" -> number of merges whose delta carried it
	mergeErr := make(chan string, 64)
	merged := make([]bool, len(enc))
	startMerge := func(i int) chan struct{} {
		done := make(chan struct{})
		wg.Add(1)
		go func() {
			defer wg.Done()
			defer close(done)
			in, err := event.DecodeState(enc[i])
			if err != nil {
				mergeErr <- fmt.Sprintf("payload %d does not decode: %v", i, err)
				return
			}
			if ret := rep.Merge(in); ret != nil {
				dmu.Lock()
				for k, t := range stateOf(ret.(*event.State), universe) {
					if t.add != 0 {
						reported[fmt.Sprintf("%s|add|%d", k, t.add)]++
					}
					if t.del != 0 {
						reported[fmt.Sprintf("%s|del|%d", k, t.del)]++
					}
				}
				dmu.Unlock()
			}
			// a reader on the gossip side, as Swarm.merge iterating the delta does
			for _, ev := range universe {
				rep.Has(ev)
			}
		}()
		return done
	}
	overlapped := 0
	var hookOp *RaceOp
	released := false
	crdt.Now = func() int64 {
		if hookOp != nil && !released {
			released = true
			for _, pi := range hookOp.Release {
				merged[pi] = true
				d := startMerge(pi)
				select {
				case <-d: // the merge ran while the local operation was between its read and its write
					overlapped++
				case <-time.After(2 * time.Millisecond): // blocked on the replica's lock: it runs after the operation
				}
			}
		}
		return clk
	}
	for i := range c.Ops {
		op := &c.Ops[i]
		ev := universe[op.Ev]
		if op.Warm {
			rep.Has(ev)
		}
		clk = op.T
		hookOp, released = op, false
		if op.Del {
			rep.Del(ev)
			join(mkey(ev), times{del: op.T})
		} else {
			rep.Add(ev)
			join(mkey(ev), times{add: op.T})
		}
		hookOp = nil
	}
	for i := range enc { // everything not released yet is merged now, concurrently
		if !merged[i] {
			startMerge(i)
		}
		if deltas { // the same update arrives over a second link at the same time
			startMerge(i)
		}
	}
	wg.Wait()
	select {
	case m := <-mergeErr:
		return Failf("%s", m)
	default:
	}
	for k, t := range want {
		if t == (times{}) {
			delete(want, k)
		}
	}
	if msg := checkReplica(rep, want, universe); msg != "" {
		return Failf("one replica (durable=%v) used by local operations and gossip merges at once: after everything was applied %s; it must hold the join of all updates %v", c.Durable, msg, sortedLww(want))
	}
	if deltas {
		local := map[string]bool{}
		for _, op := range c.Ops {
			f := "add"
			if op.Del {
				f = "del"
			}
			local[fmt.Sprintf("%s|%s|%d", mkey(universe[op.Ev]), f, op.T)] = true
		}
		for k, n := range reported {
			if n > 1 {
				return Failf("replica (durable=%v) merging payloads from several links at once: %d merges handed on %q as news in their delta; it can have been new to the replica only once", c.Durable, n, k)
			}
		}
		for k, t := range want {
			for f, v := range map[string]int64{"add": t.add, "del": t.del} {
				id := fmt.Sprintf("%s|%s|%d", k, f, v)
				if v != 0 && !local[id] && reported[id] != 1 {
					return Failf("replica (durable=%v) merging payloads from several links at once: the update %q, which only gossip carried, changed the replica but %d merges reported it in their delta (expected exactly 1); it is withheld from onward relay", c.Durable, id, reported[id])
				}
			}
		}
	}
	labels := []string{"race-volatile"}
	if c.Durable {
		labels = []string{"race-durable"}
	}
	if overlapped > 0 {
		labels = append(labels, "merge-ran-inside-local-operation")
	}
	return Result{NonTrivial: len(c.Ops) >= 2 && len(c.Payloads) >= 2, Labels: labels}
}

func sortedLww(m lww) []string {
	var out []string
	for k, t := range m {
		out = append(out, fmt.Sprintf("%s=(%d,%d)", k, t.add, t.del))
	}
	sort.Strings(out)
	return out
}
