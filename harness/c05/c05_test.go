//go:build verif

// C05 — Cluster routing follows the replicated subscription state.
// 2-4 real brokers joined by the simulated gossip transport of vkit (transcribed mesh sender per link, FIFO wires);
// the generated history owns the transport schedule. See DESIGN.md §4 C05 for the schedule classes.
package c05

import (
	"fmt"
	"os"
	"sort"
	"strings"
	"testing"
	"time"

	"github.com/emitter-io/emitter/internal/event"
	"github.com/emitter-io/emitter/internal/event/crdt"
	"github.com/emitter-io/emitter/internal/message"
	"github.com/emitter-io/emitter/internal/security"
	"github.com/emitter-io/emitter/internal/verif/vkit"
	"pgregory.net/rapid"
)

func TestMain(m *testing.M) { vkit.Main(m) }

// Op is one step. Client ops: sub / unsub / disc (client C, channel Ch); flap = unsubscribe + subscribe again of a held channel; connect re-attaches client C at broker B.
// Transport ops: pick / deliver on link A->B2; periodic = full state of A queued for B2; fullsync = quiesce, then a
// full-state exchange A->B2 with nothing else in flight, quiesce; offline = B2 is garbage-collected at A (link down,
// OnGC callback); reconnect = link A<->B2 comes back with a full-state exchange both ways. check = quiesce and
// compare routing with the model; pub = check + publish on Ch at broker B and compare deliveries and unicast frames.
type Op struct {
	K  string `json:"op"`
	C  int    `json:"c,omitempty"`
	B  int    `json:"b,omitempty"`
	Ch string `json:"ch,omitempty"`
	A  int    `json:"a,omitempty"`
	B2 int    `json:"b2,omitempty"`
}

// Case is a history on a small cluster.
type Case struct {
	N     int    `json:"n"`
	Line  bool   `json:"line,omitempty"`
	Class string `json:"class"` // A, A', B, C, D
	Home  []int  `json:"home"`  // initial broker of each client
	Ops   []Op   `json:"ops"`
}

// a channel name longer than a kilobyte: the replicated subscription entry (value = user + channel) crosses the size classes of stores and caches
var longCh = "long" + strings.Repeat("x", 1100) + "/"

var chans = []string{"a/", "a/b/", "c/", "a/", "a/b/", "a/", "x/y/", "y/x/", longCh, longCh} // x/y/ and y/x/: ssids with equal XOR hash (per-peer counters)

func genCase(class string) func(t *rapid.T) Case {
	return func(t *rapid.T) Case {
		c := Case{N: rapid.IntRange(2, 4).Draw(t, "n"), Class: class}
		if class == "L" { // a link flaps inside a cluster that stays connected: three or four brokers, full mesh
			c.N = rapid.IntRange(3, 4).Draw(t, "nl")
		}
		if class == "P" { // a partition nobody has noticed yet: two brokers, or three in a line, and the one link between two of them breaks
			c.N = rapid.IntRange(2, 3).Draw(t, "np")
			c.Line = c.N == 3
		}
		if class == "J" { // late joiner: mostly two brokers (with more, full states of two brokers about a third one differ in their add times: the listed double-count finding)
			c.N = rapid.SampledFrom([]int{2, 2, 2, 3}).Draw(t, "nj")
		}
		if c.N >= 3 && (class == "A" || class == "A'") {
			c.Line = rapid.IntRange(0, 2).Draw(t, "line") == 0
		}
		nc := rapid.IntRange(2, 4).Draw(t, "clients")
		for i := 0; i < nc; i++ {
			c.Home = append(c.Home, rapid.IntRange(0, c.N-1).Draw(t, "home"))
		}
		link := func() (int, int) {
			if class == "P" {
				a := rapid.IntRange(0, c.N-2).Draw(t, "pa")
				return a, a + 1
			}
			a := rapid.IntRange(0, c.N-1).Draw(t, "la")
			b := rapid.IntRange(0, c.N-2).Draw(t, "lb")
			if b >= a {
				b++
			}
			return a, b
		}
		lastC, lastCh := 0, "a/"
		for i, n := 0, rapid.IntRange(2, 40).Draw(t, "nops"); i < n; i++ {
			op := Op{C: rapid.IntRange(0, nc-1).Draw(t, "c"), Ch: rapid.SampledFrom(chans).Draw(t, "ch")}
			if i > 0 && rapid.IntRange(0, 2).Draw(t, "burst") == 0 { // bursts: the same client on the same channel again (subscribe / unsubscribe / subscribe ...)
				op.C, op.Ch = lastC, lastCh
			}
			lastC, lastCh = op.C, op.Ch
			k := rapid.IntRange(0, 29).Draw(t, "kind")
			switch {
			case k < 8:
				op.K = "sub"
			case k < 12:
				op.K = "unsub"
			case k < 14:
				op.K = "disc"
			case k < 15:
				op.K, op.B = "connect", rapid.IntRange(0, c.N-1).Draw(t, "cb")
			case k < 17:
				op.K = "flap" // the client drops and immediately re-takes a subscription it holds (same connection, same channel)
			case k < 19:
				op.K = "check"
			case k < 21:
				op.K, op.B = "pub", rapid.IntRange(0, c.N-1).Draw(t, "pb")
			case k < 26 && class == "D" && k >= 22:
				op.K = rapid.SampledFrom([]string{"offline", "reconnect", "reconnect"}).Draw(t, "dk")
				op.A, op.B2 = link()
			case k >= 21 && k < 23 && class == "J":
				op.K = "join"
			case k >= 21 && k < 25 && (class == "L" || class == "P"):
				op.K = rapid.SampledFrom([]string{"flaplink", "flaplink", "restorelink"}).Draw(t, "lk")
				op.A, op.B2 = link()
			case k < 23 && (class == "A" || class == "A'" || class == "C"):
				op.K = "fullsync"
				op.A, op.B2 = link()
			case k < 27 && class != "A" && !((class == "L" || class == "P") && k < 25):
				op.K = rapid.SampledFrom([]string{"pick", "deliver", "deliver"}).Draw(t, "tk")
				op.A, op.B2 = link()
			case k < 29 && class == "C":
				op.K = "periodic"
				op.A, op.B2 = link()
			case k < 29 && class == "D":
				op.K = rapid.SampledFrom([]string{"offline", "reconnect", "reconnect"}).Draw(t, "dk")
				op.A, op.B2 = link()
			default:
				op.K = "sub"
			}
			c.Ops = append(c.Ops, op)
			if (class == "L" || class == "P") && (op.K == "unsub" || op.K == "disc" || op.K == "sub" || op.K == "flap") && rapid.IntRange(0, 2).Draw(t, "losenow") == 0 {
				// the link from the client's broker to another broker breaks right now: the update just queued for it is lost
				a := c.Home[op.C]
				b := rapid.IntRange(0, c.N-2).Draw(t, "lossb")
				if b >= a {
					b++
				}
				if class == "P" {
					a, b = link()
				}
				c.Ops = append(c.Ops, Op{K: "flaplink", A: a, B2: b})
				if rapid.Bool().Draw(t, "restorenow") {
					c.Ops = append(c.Ops, Op{K: "restorelink"})
				}
			}
		}
		if class == "P" {
			// every case ends with one more partition: publishes that cannot be forwarded, subscriptions that come and go on
			// both sides meanwhile, then the link is back
			x, y := link()
			c.Ops = append(c.Ops, Op{K: "flaplink", A: x, B2: y})
			for i, n := 0, rapid.IntRange(1, 6).Draw(t, "during"); i < n; i++ {
				k := rapid.SampledFrom([]string{"pub", "pub", "sub", "sub", "unsub", "disc"}).Draw(t, "pk")
				c.Ops = append(c.Ops, Op{K: k, C: rapid.IntRange(0, nc-1).Draw(t, "pc"), B: rapid.IntRange(0, c.N-1).Draw(t, "ppb"), Ch: rapid.SampledFrom(chans).Draw(t, "pch")})
			}
			c.Ops = append(c.Ops, Op{K: "restorelink"}, Op{K: "check"})
		}
		if class == "J" {
			c.Ops = append(c.Ops, Op{K: "join"}, Op{K: "check"})
			for i, n := 0, rapid.IntRange(0, 6).Draw(t, "after"); i < n; i++ { // subscriptions learnt from the full state end afterwards
				c.Ops = append(c.Ops, Op{K: rapid.SampledFrom([]string{"unsub", "unsub", "disc", "sub", "check"}).Draw(t, "ak"), C: rapid.IntRange(0, nc-1).Draw(t, "ac"), Ch: rapid.SampledFrom(chans).Draw(t, "ach")})
			}
		}
		c.Ops = append(c.Ops, Op{K: "pub", B: rapid.IntRange(0, c.N-1).Draw(t, "fb"), Ch: rapid.SampledFrom(chans).Draw(t, "fch")})
		return c
	}
}

type mclient struct {
	cl     *vkit.Client
	broker int
	subs   map[string]bool
}

var clock int64

const (
	fCoalesce = "C05-coalesced-gossip-lost"
	fDouble   = "C05-fullstate-double-count"
	fOffline  = "C05-offline-tombstone-wrong-key"
)

func run(c Case) (res vkit.Result) {
	saved := crdt.Now
	crdt.Now = func() int64 { clock++; return clock }
	defer func() { crdt.Now = saved }()
	base, err := os.MkdirTemp(vkit.OutDir(), "c05")
	if err != nil {
		panic(err)
	}
	defer os.RemoveAll(base)
	var brokers []*vkit.Broker
	for i := 0; i < c.N; i++ {
		b, err := vkit.NewBroker(vkit.BrokerOpts{Dir: fmt.Sprintf("%s/%d", base, i), Node: fmt.Sprintf("00:00:00:00:05:%02d", i+1), LicSeed: "c05"})
		if err != nil {
			panic(err)
		}
		brokers = append(brokers, b)
	}
	defer func() {
		for _, b := range brokers {
			b.S.Close()
		}
	}()
	net := vkit.NewSimNet(brokers, c.Line)
	net.NoCoalesce = c.Class != "B"
	// the harness sees every state payload on the wire: (receiver, subscription key) handed two different add times
	// with no remove in between is what the listed double-count finding needs
	type seen struct {
		add      int64
		delSince bool
	}
	observed := map[string]*seen{}
	doubleAdd := false
	net.Observe = func(from, to int, kind string, st *event.State) {
		st.Subscriptions(func(ev *event.Subscription, v event.Value) {
			k := fmt.Sprintf("%d|%s", to, ev.Key())
			s := observed[k]
			if s == nil {
				s = &seen{}
				observed[k] = s
			}
			if v.DelTime() != 0 {
				s.delSince = true
			}
			if v.AddTime() != 0 {
				if s.add != 0 && s.add != v.AddTime() && !s.delSince {
					doubleAdd = true
				}
				s.add, s.delSince = v.AddTime(), false
			}
		})
	}
	key := brokers[0].Key("#/", security.AllowReadWrite)
	labels := map[string]bool{"class-" + c.Class: true}
	offlineThenBack := false
	started := time.Now()
	failf := func(format string, a ...interface{}) vkit.Result {
		if time.Since(started) > 20*time.Second {
			// brokers treat a peer they have not heard of for 30 s as inactive; the real cluster refreshes that every second,
			// the simulated one does not: a case that took this long (a saturated machine) is inconclusive, not a violation
			return vkit.OK(false, "inconclusive-slow-machine")
		}
		r := vkit.Failf(format, a...)
		switch { // the double-count defect (two add times for one entry) is repaired: it is no longer a way to explain a failure
		case net.Coalesced() > 0:
			r.Finding = fCoalesce
		case offlineThenBack:
			r.Finding = fOffline
		}
		return r
	}
	defer func() {
		if p := recover(); p != nil {
			res = failf("panic in the gossip path: %v", p)
			if strings.Contains(fmt.Sprint(p), "interface conversion") && net.Coalesced() > 0 {
				res.Finding = fCoalesce
			}
		}
	}()
	isolated := map[int]bool{}
	if c.Class == "J" {
		// the last broker has no link to the others yet (it joins later): nobody has ever heard of it, no callbacks
		x := c.N - 1
		isolated[x] = true
		for y := 0; y < x; y++ {
			net.Disconnect(x, y)
		}
	}
	clients := make([]*mclient, len(c.Home))
	attach := func(i, b int) error {
		cl := brokers[b].Attach(fmt.Sprintf("c%d@%d", i, b))
		clients[i] = &mclient{cl: cl, broker: b, subs: map[string]bool{}}
		return cl.Connect(fmt.Sprintf("client%d", i), "", nil)
	}
	for i, h := range c.Home {
		if err := attach(i, h); err != nil {
			return failf("connect: %v", err)
		}
	}
	pubs := make([]*vkit.Client, c.N)
	for i := range pubs {
		pubs[i] = brokers[i].Attach(fmt.Sprintf("publisher@%d", i))
		if err := pubs[i].Connect(fmt.Sprintf("publisher%d", i), "", nil); err != nil {
			return failf("connect: %v", err)
		}
	}
	settle := func() {
		if c.Class == "A" {
			net.Quiesce()
		}
	}
	settle()
	ssidOf := func(ch string) message.Ssid {
		return message.NewSsid(brokers[0].Lic.Contract(), security.ParseChannel([]byte(key+"/"+ch)).Query)
	}
	reachable := func(a, b int) bool {
		if c.Class == "P" { // a broken link with no way around it: the two sides cannot talk (nobody is garbage collected)
			return net.Reachable(a, b)
		}
		return a == b || (!isolated[a] && !isolated[b])
	}
	idxOf := map[string]int{}
	for i, n := range net.Nodes {
		idxOf[n.Name.String()] = i
	}
	wantRemote := func(j int, ch string) []string {
		set := map[string]bool{}
		for _, m := range clients {
			if m.cl == nil || m.broker == j || !reachable(j, m.broker) {
				continue
			}
			for f := range m.subs {
				if vkit.MatchStr(false, f, ch) {
					set[net.Nodes[m.broker].Name.String()] = true
				}
			}
		}
		var out []string
		for k := range set {
			out = append(out, k)
		}
		sort.Strings(out)
		return out
	}
	gotRemote := func(j int, ch string) []string {
		var out []string
		for _, s := range brokers[j].S.VerifTrie().Lookup(ssidOf(ch), func(s message.Subscriber) bool { return s.Type() == message.SubscriberRemote }) {
			if i, ok := idxOf[s.ID()]; c.Class == "P" && ok && !reachable(j, i) {
				continue // what a broker believes about brokers it cannot talk to is not judged until they talk again
			}
			out = append(out, s.ID())
		}
		sort.Strings(out)
		return out
	}
	checkRoutes := func(step int, why string) string {
		net.Quiesce()
		if c.Class == "L" || c.Class == "P" {
			// what a lost message withheld is repaired by the periodic full-state exchange between neighbours: one round
			for a := range brokers {
				for b := range brokers {
					if a != b && !net.LinkDown(a, b) {
						net.Periodic(a, b)
					}
				}
			}
			net.Quiesce()
		}
		for j := range brokers {
			for _, ch := range []string{"a/", "a/b/", "c/", "a/b/x/", "x/y/", "y/x/", longCh} {
				if g, w := gotRemote(j, ch), wantRemote(j, ch); fmt.Sprint(g) != fmt.Sprint(w) {
					return fmt.Sprintf("step %d (%s): after gossip quiesced broker %d forwards %.40q to peers %v; the brokers with a live local subscriber are %v", step, why, j, ch, g, w)
				}
			}
		}
		return ""
	}
	nontrivial, endedOne := false, false
	lateOK := map[string]bool{} // probes published towards a broker that could not be reached at the time
	downA, downB := -1, -1
	for step, op := range c.Ops {
		switch op.K {
		case "sub", "unsub":
			m := clients[op.C]
			if m.cl == nil {
				continue
			}
			if op.K == "sub" {
				if codes, _, err := m.cl.Subscribe(uint16(step+1), key+"/"+op.Ch); err != nil || codes[0] == 0x80 {
					return failf("step %d: subscribe: %v %v", step, codes, err)
				}
				m.subs[op.Ch] = true
			} else {
				if _, err := m.cl.Unsubscribe(uint16(step+1), key+"/"+op.Ch); err != nil {
					return failf("step %d: unsubscribe: %v", step, err)
				}
				if m.subs[op.Ch] {
					endedOne = true
				}
				delete(m.subs, op.Ch)
			}
			settle()
		case "flap":
			m := clients[op.C]
			if m.cl == nil || len(m.subs) == 0 {
				continue
			}
			ch := op.Ch
			if m.subs[longCh] {
				ch = longCh
			} else if !m.subs[ch] {
				ch = keysOfS(m.subs)[0]
			}
			if _, err := m.cl.Unsubscribe(uint16(step+1), key+"/"+ch); err != nil {
				return failf("step %d: unsubscribe: %v", step, err)
			}
			settle()
			if codes, _, err := m.cl.Subscribe(uint16(step+1), key+"/"+ch); err != nil || codes[0] == 0x80 {
				return failf("step %d: subscribe: %v %v", step, codes, err)
			}
			settle()
			labels["subscription-flapped"] = true
		case "disc":
			m := clients[op.C]
			if m.cl == nil {
				continue
			}
			if err := m.cl.Close(); err != nil {
				return failf("step %d: close: %v", step, err)
			}
			if len(m.subs) > 0 {
				endedOne = true
			}
			m.cl, m.subs = nil, map[string]bool{}
			settle()
		case "connect":
			if clients[op.C].cl != nil {
				continue
			}
			if err := attach(op.C, op.B); err != nil {
				return failf("step %d: connect: %v", step, err)
			}
			settle()
		case "pick":
			net.Pick(op.A, op.B2)
		case "deliver":
			net.Deliver(op.A, op.B2)
		case "periodic":
			net.Periodic(op.A, op.B2)
			labels["periodic-full-state-racing"] = true
		case "fullsync":
			if msg := checkRoutes(step, "before fullsync"); msg != "" {
				return failf("%s", msg)
			}
			net.Periodic(op.A, op.B2)
			labels["full-state-with-nothing-in-flight"] = true
			if msg := checkRoutes(step, fmt.Sprintf("after a full-state exchange %d->%d with nothing else in flight", op.A, op.B2)); msg != "" {
				return failf("%s", msg)
			}
		case "offline":
			// broker B2 becomes unreachable for everybody (mesh garbage-collects a peer only when no path to it is left):
			// all its links go down and every other broker gets the OnGC callback for it, as it does for them
			x := op.B2
			if isolated[x] {
				continue
			}
			net.Quiesce()
			isolated[x] = true
			for y := range brokers {
				if y != x {
					net.Disconnect(x, y)
					brokers[y].S.VerifSwarm().VerifPeerOffline(net.Nodes[x].Name)
					brokers[x].S.VerifSwarm().VerifPeerOffline(net.Nodes[y].Name)
				}
			}
			labels["peer-offline"] = true
			// strict: no route to the dead peer is left anywhere, and it has none to the others
			for y := range brokers {
				for _, ch := range []string{"a/", "a/b/", "c/", "x/y/", "y/x/"} {
					for _, pr := range [][2]int{{y, x}, {x, y}} {
						if pr[0] == pr[1] {
							continue
						}
						for _, id := range gotRemote(pr[0], ch) {
							if id == net.Nodes[pr[1]].Name.String() {
								msg := fmt.Sprintf("step %d: after broker %d became unreachable and was garbage-collected, broker %d still forwards %q to broker %d", step, x, pr[0], ch, pr[1])
								if offlineThenBack { // an earlier offline/reconnect left the replicated state inconsistent (listed finding)
									return failf("%s", msg)
								}
								return vkit.Failf("%s", msg)
							}
						}
					}
				}
			}
		case "flaplink":
			// the connection between two brokers breaks while both stay reachable through the others: nobody is garbage
			// collected, what was queued or on the wire of that link is lost, later traffic is routed around it
			if downA >= 0 {
				net.Reconnect(downA, downB)
			}
			downA, downB = op.A, op.B2
			net.Disconnect(op.A, op.B2)
			labels["link-flapped-without-gc"] = true
			if c.Class == "P" {
				labels["partitioned-without-gc"] = true
			}
		case "restorelink":
			if downA >= 0 {
				net.Reconnect(downA, downB)
				downA = -1
			}
		case "join":
			x := c.N - 1
			if !isolated[x] {
				continue
			}
			delete(isolated, x)
			for y := 0; y < x; y++ {
				net.Reconnect(x, y) // a new connection: full state both ways
			}
			labels["late-joiner-full-state"] = true
		case "reconnect":
			x := op.B2
			if !isolated[x] {
				continue
			}
			delete(isolated, x)
			for y := range brokers {
				if y != x && !isolated[y] {
					net.Reconnect(x, y)
				}
			}
			offlineThenBack = true
			labels["peer-reconnected"] = true
		case "check", "pub":
			if msg := checkRoutes(step, op.K); msg != "" {
				return failf("%s", msg)
			}
			if endedOne {
				holders := map[string]map[int]bool{}
				for _, m := range clients {
					for f := range m.subs {
						if holders[f] == nil {
							holders[f] = map[int]bool{}
						}
						holders[f][m.broker] = true
					}
				}
				for _, hs := range holders {
					if len(hs) >= 2 {
						nontrivial = true
					}
				}
			}
			if op.K == "check" {
				continue
			}
			// publish at broker op.B: every matching client cluster-wide gets it once; one unicast frame per other
			// broker with a matching subscriber, none to the others
			before := map[[2]int]int{}
			for d := 0; d < c.N; d++ {
				before[[2]int{op.B, d}] = net.UnicastCount(op.B, d)
			}
			wantDst := map[int]bool{}
			for _, m := range clients {
				if m.cl == nil || m.broker == op.B || !reachable(op.B, m.broker) {
					continue
				}
				for f := range m.subs {
					if vkit.MatchStr(false, f, op.Ch) {
						wantDst[m.broker] = true
					}
				}
			}
			// brokers the publishing broker believes have a subscriber but cannot reach: it will try, and the transport will refuse
			var lost []int
			failedBefore := map[int]int{}
			if c.Class == "P" {
				for _, s := range brokers[op.B].S.VerifTrie().Lookup(ssidOf(op.Ch), func(s message.Subscriber) bool { return s.Type() == message.SubscriberRemote }) {
					if d, ok := idxOf[s.ID()]; ok && !reachable(op.B, d) {
						lost = append(lost, d)
						failedBefore[d] = net.FailedCount(op.B, d)
					}
				}
			}
			payload := []byte(fmt.Sprintf("probe-%d", step))
			if _, err := pubs[op.B].Publish(uint16(step+1), key+"/"+op.Ch, payload, false); err != nil {
				return failf("step %d: publish: %v", step, err)
			}
			// ... and only once it has (the peer's flush ticker may be late on a busy machine) does the history go on: a frame
			// still queued when the link returns would be delivered late, which is fine but is not what the next steps count
			for _, d := range lost {
				deadline := time.Now().Add(5 * time.Second) // synchronisation only, not an oracle
				for net.FailedCount(op.B, d) == failedBefore[d] && time.Now().Before(deadline) {
					time.Sleep(time.Millisecond)
				}
				labels["unicast-refused-no-route"] = true
				lateOK[string(payload)] = true // should that frame leave late after all, its late arrival is not a duplicate of anything
			}
			// forwarding is asynchronous (the peer's 5 ms flush ticker): wait for the expected frames, then a little longer
			deadline := time.Now().Add(vkit.WaitCeiling)
			for time.Now().Before(deadline) {
				all := true
				for d := range wantDst {
					if net.UnicastCount(op.B, d) == before[[2]int{op.B, d}] {
						all = false
					}
				}
				if all {
					break
				}
				time.Sleep(time.Millisecond)
			}
			time.Sleep(15 * time.Millisecond)
			for d := 0; d < c.N; d++ {
				got := net.UnicastCount(op.B, d) - before[[2]int{op.B, d}]
				want := 0
				if wantDst[d] {
					want = 1
				}
				if got != want {
					return failf("step %d: publish on %q at broker %d: %d frames forwarded to broker %d, expected %d (brokers with a matching subscriber: %v)", step, op.Ch, op.B, got, d, want, keysOf(wantDst))
				}
			}
			net.Quiesce()
			for i, m := range clients {
				if m.cl == nil {
					continue
				}
				got, err := m.cl.Barrier()
				if err != nil {
					return failf("step %d: barrier: %v", step, err)
				}
				want := 0
				if reachable(op.B, m.broker) || m.broker == op.B {
					for f := range m.subs {
						if vkit.MatchStr(false, f, op.Ch) {
							want = 1
						}
					}
				}
				if len(lateOK) > 0 {
					kept := got[:0]
					for _, p := range got {
						if string(p.Payload) != string(payload) && lateOK[string(p.Payload)] {
							continue
						}
						kept = append(kept, p)
					}
					got = kept
				}
				if len(got) != want {
					return failf("step %d: publish on %q at broker %d: client %d at broker %d (subscribed to %v) received %d copies, expected %d", step, op.Ch, op.B, i, m.broker, keysOfS(m.subs), len(got), want)
				}
				for _, p := range got {
					if p.TopicName != op.Ch || string(p.Payload) != string(payload) {
						return failf("step %d: client %d received %q/%q", step, i, p.TopicName, p.Payload)
					}
				}
				if want == 1 && m.broker != op.B {
					labels["delivered-across-brokers"] = true
				}
			}
		}
	}
	if n := net.NilMerges(); n > 0 {
		return failf("a sender bucket held a nil payload %d time(s) when the next broadcast arrived (an earlier pending.Merge(new) returned nil): mesh calls Merge on it and panics on the caller's goroutine", n)
	}
	r := vkit.Result{NonTrivial: nontrivial}
	if net.Coalesced() > 0 {
		labels["coalescing-happened"] = true
	}
	if doubleAdd {
		labels["two-add-times-handed-to-a-receiver"] = true
	}
	for l := range labels {
		r.Labels = append(r.Labels, l)
	}
	sort.Strings(r.Labels)
	return r
}

func keysOf(m map[int]bool) []int {
	var out []int
	for k := range m {
		out = append(out, k)
	}
	sort.Ints(out)
	return out
}

func keysOfS(m map[string]bool) []string {
	var out []string
	for k := range m {
		out = append(out, k)
	}
	sort.Strings(out)
	return out
}

func TestClassA(t *testing.T)      { vkit.Check(t, genCase("A"), run) }
func TestClassAPrime(t *testing.T) { vkit.Check(t, genCase("A'"), run) }
func TestClassB(t *testing.T)      { vkit.Check(t, genCase("B"), run) }
func TestClassC(t *testing.T)      { vkit.Check(t, genCase("C"), run) }
func TestClassD(t *testing.T)      { vkit.Check(t, genCase("D"), run) }
func TestClassJ(t *testing.T)      { vkit.Check(t, genCase("J"), run) }
func TestClassL(t *testing.T)      { vkit.Check(t, genCase("L"), run) }
func TestClassP(t *testing.T)      { vkit.Check(t, genCase("P"), run) }

// TestProbes replays the minimal reproduction of each listed finding.
func TestProbes(t *testing.T) {
	probes := []struct {
		id string
		c  Case
	}{
		{fCoalesce, Case{N: 2, Class: "B", Home: []int{0}, Ops: []Op{{K: "sub", Ch: "a/"}, {K: "sub", Ch: "a/b/"}, {K: "check"}}}},
		// repaired defects stay as regression probes: a failure here is a violation (their ids are not listed any more)
		{fDouble, Case{N: 2, Class: "C", Home: []int{1}, Ops: []Op{{K: "periodic", A: 1, B2: 0}, {K: "sub", Ch: "a/b/"}, {K: "check"}, {K: "unsub", Ch: "a/b/"}, {K: "check"}}}},
		{"C05-fullstate-tombstone-uncounts", Case{N: 2, Class: "J", Home: []int{1}, Ops: []Op{{K: "sub", Ch: "a/"}, {K: "disc"}, {K: "connect", B: 1}, {K: "sub", Ch: "a/"}, {K: "join"}, {K: "check"}}}},
		{fOffline, Case{N: 2, Class: "D", Home: []int{1}, Ops: []Op{{K: "sub", Ch: "a/"}, {K: "check"}, {K: "offline", B2: 1}, {K: "reconnect", B2: 1}, {K: "check"}}}},
	}
	for _, p := range probes {
		r := run(p.c)
		vkit.Probe(p.id, r.Fail != "" && r.Finding == p.id, r.Fail)
		if r.Fail != "" && r.Finding != p.id {
			vkit.ReportFailure(t.Name(), p.c, "probe of "+p.id+" fails differently: "+r.Fail, r.Finding)
			t.Errorf("probe %s: %s", p.id, r.Fail)
		}
	}
}
