//go:build verif

package c05

// First contact under concurrency: the first updates about a broker nobody has heard of yet arrive over two links at
// the same moment (and the membership refresh touches the same name). Whatever the interleaving, the routes follow the
// replicated state: both subscriptions are routed to, and once both have ended nothing is forwarded to that broker.

import (
	"fmt"
	"sync"
	"sync/atomic"
	"testing"

	"github.com/emitter-io/emitter/internal/event"
	"github.com/emitter-io/emitter/internal/event/crdt"
	"github.com/emitter-io/emitter/internal/message"
	"github.com/emitter-io/emitter/internal/security"
	"github.com/emitter-io/emitter/internal/verif/vkit"
	"github.com/weaveworks/mesh"
)

func TestFirstContactConcurrent(t *testing.T) {
	trials := vkit.N(3000)
	saved := crdt.Now
	var clk int64 = 1000
	crdt.Now = func() int64 { return atomic.AddInt64(&clk, 1) }
	defer func() { crdt.Now = saved }()
	b, err := vkit.NewBroker(vkit.BrokerOpts{Node: "00:00:00:00:05:77", LicSeed: "c05"})
	if err != nil {
		t.Fatal(err)
	}
	defer b.S.Close()
	sw := b.S.VerifSwarm()
	sw.VerifSetGossip(nopGossip{})
	ssid := func(ch string) message.Ssid {
		return message.NewSsid(b.Lic.Contract(), security.ParseChannel([]byte("k/"+ch)).Query)
	}
	routed := func(ch string, peer mesh.PeerName) bool {
		for _, s := range b.S.VerifTrie().Lookup(ssid(ch), func(s message.Subscriber) bool { return s.Type() == message.SubscriberRemote }) {
			if s.ID() == peer.String() {
				return true
			}
		}
		return false
	}
	enc := func(ev *event.Subscription, add bool) []byte {
		st := event.NewState("")
		if add {
			st.Add(ev)
		} else {
			st.Del(ev)
		}
		return st.Encode()[0]
	}
	for trial := 0; trial < trials; trial++ {
		peer := mesh.PeerName(100000 + trial)
		chans := []string{fmt.Sprintf("fc/a%d/", trial%7), fmt.Sprintf("fc/b%d/", trial%5)}
		evs := []*event.Subscription{
			{Peer: uint64(peer), Conn: 1, Ssid: ssid(chans[0]), Channel: []byte(chans[0])},
			{Peer: uint64(peer), Conn: 2, Ssid: ssid(chans[1]), Channel: []byte(chans[1])},
		}
		adds := [][]byte{enc(evs[0], true), enc(evs[1], true)}
		var wg sync.WaitGroup
		start := make(chan struct{})
		for i := 0; i < 2; i++ {
			wg.Add(1)
			go func(i int) {
				defer wg.Done()
				<-start
				sw.OnGossipBroadcast(peer, adds[i])
			}(i)
		}
		wg.Add(1)
		go func() {
			defer wg.Done()
			<-start
			sw.VerifTouch(peer)
		}()
		close(start)
		wg.Wait()
		c := map[string]interface{}{"trial": trial, "channels": chans}
		fail := func(msg string) {
			vkit.ReportFailure(t.Name(), c, msg, "")
			t.Fatal(msg)
		}
		for i, ch := range chans {
			if !routed(ch, peer) {
				fail(fmt.Sprintf("trial %d: the first two subscriptions of an unknown broker arrived over two links at once; %q (subscription %d) is not forwarded to it", trial, ch, i))
			}
		}
		for i := range evs {
			sw.OnGossipBroadcast(peer, enc(evs[i], false))
		}
		for _, ch := range chans {
			if routed(ch, peer) {
				fail(fmt.Sprintf("trial %d: the first two subscriptions of an unknown broker arrived over two links at once and both have ended since; %q is still forwarded to that broker", trial, ch))
			}
		}
		if trial%64 == 0 {
			vkit.Record(t.Name(), c, vkit.OK(true, "first-contact-concurrent"))
		}
	}
}

type nopGossip struct{}

func (nopGossip) GossipUnicast(dst mesh.PeerName, msg []byte) error { return nil }
func (nopGossip) GossipBroadcast(update mesh.GossipData)            {}
func (nopGossip) GossipNeighbourSubset(update mesh.GossipData)      {}
