//go:build verif

// C20 — Licenses and key ciphers round-trip.
package c20

import (
	"bytes"
	"encoding/base64"
	"encoding/hex"
	"fmt"
	"github.com/emitter-io/emitter/internal/provider/contract"
	"github.com/emitter-io/emitter/internal/provider/usage"
	"strings"
	"testing"
	"time"

	"github.com/emitter-io/emitter/internal/security"
	"github.com/emitter-io/emitter/internal/security/license"
	"github.com/emitter-io/emitter/internal/verif/vkit"
	"pgregory.net/rapid"
)

func TestMain(m *testing.M) { vkit.Main(m) }

const alphabet = "ABCDEFGHIJKLMNOPQRSTUVWXYZabcdefghijklmnopqrstuvwxyz0123456789-_"

// LicCase describes a license by its fields.
type LicCase struct {
	Version int    `json:"version"`
	KeySeed string `json:"keyseed"`
	User    uint32 `json:"user"`
	Sign    uint32 `json:"sign"`
	Index   uint32 `json:"index"`
	Expires int64  `json:"expires"` // v1 only
	Type    uint32 `json:"type"`    // v1 only
}

func detBytes(seed string, n int) []byte {
	l := vkit.DetLicense(2, seed).(*license.V2)
	return append(append([]byte{}, l.EncryptionKey...), l.EncryptionSalt...)[:n]
}

func (c LicCase) build() license.License {
	switch c.Version {
	case 1:
		return &license.V1{EncryptionKey: base64.RawURLEncoding.EncodeToString(detBytes(c.KeySeed, 16)), User: c.User, Sign: c.Sign,
			Expires: time.Unix(c.Expires, 0), Type: c.Type}
	case 2:
		return &license.V2{EncryptionKey: detBytes(c.KeySeed+"k", 32), EncryptionSalt: detBytes(c.KeySeed+"s", 24), User: c.User, Sign: c.Sign, Index: c.Index}
	}
	return &license.V3{EncryptionKey: detBytes(c.KeySeed+"k", 32), EncryptionSalt: detBytes(c.KeySeed+"s", 16), User: c.User, Sign: c.Sign, Index: c.Index}
}

var u32s = []uint32{0, 1, 2, 127, 128, 255, 256, 65535, 65536, 1 << 24, 1<<31 - 1, 1 << 31, 1<<32 - 1}

func genU32(t *rapid.T, l string) uint32 {
	if rapid.Bool().Draw(t, l+"edge") {
		return rapid.SampledFrom(u32s).Draw(t, l)
	}
	return rapid.Uint32().Draw(t, l)
}

func genLic(t *rapid.T) LicCase {
	c := LicCase{Version: rapid.IntRange(1, 3).Draw(t, "version"), KeySeed: rapid.StringMatching(`[a-z]{1,6}`).Draw(t, "seed"),
		User: genU32(t, "user"), Sign: genU32(t, "sign")}
	if c.Version == 1 {
		c.Expires = rapid.SampledFrom([]int64{0, 1262304001, 1600000000, 2000000000, 4000000000}).Draw(t, "expires")
		c.Type = rapid.SampledFrom([]uint32{0, 1, 2, 77}).Draw(t, "type")
	} else {
		c.Index = genU32(t, "index")
	}
	return c
}

func probeKeys() []security.Key {
	var out []security.Key
	for i, fill := range []byte{0, 0xff, 0x5a} {
		k := make([]byte, 24)
		for j := range k {
			k[j] = fill ^ byte(i*j)
		}
		out = append(out, security.Key(k))
	}
	return out
}

func runLic(c LicCase) vkit.Result {
	lic := c.build()
	s := lic.String()
	if !strings.HasSuffix(s, fmt.Sprintf(":%d", c.Version)) {
		return vkit.Failf("license string %q lacks the :%d suffix", s, c.Version)
	}
	back, err := license.Parse(s)
	if err != nil {
		return vkit.Failf("Parse(String()) fails: %v (license %q)", err, s)
	}
	if back.Contract() != lic.Contract() || back.Signature() != lic.Signature() || back.Master() != lic.Master() {
		return vkit.Failf("parsed license has contract/signature/master %d/%d/%d, generated %d/%d/%d", back.Contract(), back.Signature(), back.Master(),
			lic.Contract(), lic.Signature(), lic.Master())
	}
	if back.Contract() != c.User || back.Signature() != c.Sign {
		return vkit.Failf("contract/signature accessors %d/%d differ from the fields %d/%d", back.Contract(), back.Signature(), c.User, c.Sign)
	}
	if c.Version > 1 && back.Master() != c.Index {
		return vkit.Failf("master index %d, generated with %d", back.Master(), c.Index)
	}
	c1, err1 := lic.Cipher()
	c2, err2 := back.Cipher()
	if err1 != nil || err2 != nil {
		return vkit.Failf("cipher of the generated/parsed license: %v / %v", err1, err2)
	}
	for _, k := range probeKeys() {
		e1, _ := c1.EncryptKey(k)
		e2, _ := c2.EncryptKey(k)
		if e1 != e2 {
			return vkit.Failf("parsed license encrypts differently: %q vs %q", e1, e2)
		}
		d, err := c2.DecryptKey([]byte(e1))
		if err != nil || !bytes.Equal(d, k) {
			return vkit.Failf("parsed license's cipher does not decrypt what the generated one encrypted (%v)", err)
		}
	}
	if s2 := back.String(); s2 != s {
		return vkit.Failf("String(Parse(String())) differs: %q vs %q", s2, s)
	}
	return vkit.OK(c.User != 0 || c.Sign != 0, fmt.Sprintf("license-v%d", c.Version))
}

func TestLicenseRoundtrip(t *testing.T) { vkit.Check(t, genLic, runLic) }

// ---------------------------------------------------------------------------------------------

// KeyCase is one key under one cipher plus a modification giving a distinct second key.
type KeyCase struct {
	Version int    `json:"version"`
	LicSeed string `json:"licseed"`
	Key     string `json:"key"`  // hex, 24 bytes
	Mask    string `json:"mask"` // hex, 24 bytes, non-zero: second key = key xor mask
}

func genKey(t *rapid.T) KeyCase {
	c := KeyCase{Version: rapid.IntRange(1, 3).Draw(t, "version"), LicSeed: rapid.SampledFrom([]string{"a", "b", "verif"}).Draw(t, "lic")}
	k := make([]byte, 24)
	switch rapid.IntRange(0, 4).Draw(t, "shape") {
	case 0:
	case 1:
		for i := range k {
			k[i] = 0xff
		}
	default:
		k = rapid.SliceOfN(rapid.Byte(), 24, 24).Draw(t, "key")
	}
	m := make([]byte, 24)
	for i, n := 0, rapid.IntRange(1, 3).Draw(t, "nmask"); i < n; i++ {
		m[rapid.IntRange(0, 23).Draw(t, "pos")] |= byte(1 << rapid.IntRange(0, 7).Draw(t, "bit"))
	}
	c.Key, c.Mask = hex.EncodeToString(k), hex.EncodeToString(m)
	return c
}

func validString(s string) bool {
	if len(s) != 32 {
		return false
	}
	for i := 0; i < len(s); i++ {
		if !strings.ContainsRune(alphabet, rune(s[i])) {
			return false
		}
	}
	return true
}

func runKey(c KeyCase) vkit.Result {
	ci, err := vkit.DetLicense(c.Version, c.LicSeed).Cipher()
	if err != nil {
		return vkit.Failf("cipher: %v", err)
	}
	k, _ := hex.DecodeString(c.Key)
	m, _ := hex.DecodeString(c.Mask)
	k2 := make([]byte, 24)
	for i := range k {
		k2[i] = k[i] ^ m[i]
	}
	orig := append([]byte{}, k...)
	enc, err := ci.EncryptKey(security.Key(k))
	if err != nil || !validString(enc) {
		return vkit.Failf("EncryptKey(%x) = %q, %v: not a 32-character URL-safe string", orig, enc, err)
	}
	if !bytes.Equal(k, orig) {
		return vkit.Failf("EncryptKey modified its argument")
	}
	dec, err := ci.DecryptKey([]byte(enc))
	if err != nil || !bytes.Equal(dec, orig) {
		return vkit.Failf("DecryptKey(EncryptKey(%x)) = %x, %v", orig, []byte(dec), err)
	}
	enc2, err := ci.EncryptKey(security.Key(k2))
	if err != nil {
		return vkit.Failf("EncryptKey: %v", err)
	}
	if enc2 == enc {
		return vkit.Failf("distinct keys %x and %x encrypt to the same string %q", orig, k2, enc)
	}
	again, _ := ci.EncryptKey(security.Key(orig))
	if again != enc {
		return vkit.Failf("EncryptKey is not deterministic: %q then %q", enc, again)
	}
	return vkit.OK(k[0] != 0 || k[1] != 0, fmt.Sprintf("cipher-v%d", c.Version))
}

func TestKeyRoundtrip(t *testing.T) { vkit.Check(t, genKey, runKey) }

// TestNoCollisions: a sample of distinct keys has no colliding strings (per cipher).
func TestNoCollisions(t *testing.T) {
	n := vkit.N(20000)
	for v := 1; v <= 3; v++ {
		ci, _ := vkit.DetLicense(v, "verif").Cipher()
		seen := make(map[string]uint64, n)
		x := uint64(vkit.Seed())
		for i := 0; i < n; i++ {
			k := make([]byte, 24)
			for j := 0; j < 24; j += 8 { // xorshift: distinct i give distinct keys because i is embedded
				x ^= x << 13
				x ^= x >> 7
				x ^= x << 17
				for b := 0; b < 8; b++ {
					k[j+b] = byte(x >> (8 * b))
				}
			}
			k[2], k[3], k[4], k[5] = byte(i), byte(i>>8), byte(i>>16), byte(i>>24)
			if i%3 == 0 { // low-entropy family: only the counter differs
				for j := range k {
					if j < 2 || j > 5 {
						k[j] = 0
					}
				}
			}
			s, _ := ci.EncryptKey(security.Key(k))
			if j, dup := seen[s]; dup {
				c := map[string]interface{}{"version": v, "i": i, "j": j, "string": s}
				vkit.ReportFailure(t.Name(), c, fmt.Sprintf("keys #%d and #%d encrypt to the same string %q", j, i, s), "")
				t.Fatalf("collision")
			}
			seen[s] = uint64(i)
		}
		vkit.Record(t.Name(), map[string]interface{}{"version": v, "keys": n, "seed": vkit.Seed()}, vkit.OK(true, "collision-sample"))
	}
}

// ---------------------------------------------------------------------------------------------

// RejectCase is a string handed to DecryptKey.
type RejectCase struct {
	Version int    `json:"version"`
	S       string `json:"s"`
}

func genReject(t *rapid.T) RejectCase {
	c := RejectCase{Version: rapid.IntRange(1, 3).Draw(t, "version")}
	ci, _ := vkit.DetLicense(c.Version, "verif").Cipher()
	valid, _ := ci.EncryptKey(security.Key(rapid.SliceOfN(rapid.Byte(), 24, 24).Draw(t, "key")))
	switch rapid.IntRange(0, 5).Draw(t, "mode") {
	case 0:
		c.S = valid[:rapid.IntRange(0, 31).Draw(t, "cut")]
	case 1:
		c.S = valid + rapid.StringMatching(`[A-Za-z0-9_-]{1,40}`).Draw(t, "ext")
	case 2:
		b := []byte(valid)
		for i, n := 0, rapid.IntRange(1, 3).Draw(t, "nbad"); i < n; i++ {
			b[rapid.IntRange(0, 31).Draw(t, "pos")] = rapid.SampledFrom([]byte{'=', '+', '/', ' ', '.', ':', '~', 0, 0xff, 0x80, '\n', '*', '$'}).Draw(t, "badchar")
		}
		c.S = string(b)
	case 3:
		c.S = string(rapid.SliceOfN(rapid.Byte(), 0, 70).Draw(t, "bytes"))
	case 4:
		c.S = string(rapid.SliceOfN(rapid.Byte(), 32, 32).Draw(t, "bytes32"))
	default:
		c.S = valid // accepted: keeps the oracle two-sided
	}
	return c
}

func runReject(c RejectCase) vkit.Result {
	ci, _ := vkit.DetLicense(c.Version, "verif").Cipher()
	k, err := ci.DecryptKey([]byte(c.S))
	ok := validString(c.S)
	if ok && (err != nil || len(k) != 24) {
		return vkit.Failf("a 32-character URL-safe string is rejected: %q -> %v", c.S, err)
	}
	if !ok && err == nil {
		return vkit.Failf("string %q (length %d) is not 32 valid characters but DecryptKey returned key %x without an error", c.S, len(c.S), []byte(k))
	}
	l := "rejected"
	if ok {
		l = "accepted"
	} else if len(c.S) == 32 {
		l = "rejected-length-32"
	}
	return vkit.OK(len(c.S) == 32, l)
}

func TestDecryptRejects(t *testing.T) { vkit.Check(t, genReject, runReject) }

// ---------------------------------------------------------------------------------------------

// ParseCase is a string handed to license.Parse.
type ParseCase struct {
	S string `json:"s"`
}

func validLicenses() []string {
	return []string{vkit.DetLicense(1, "verif").String(), vkit.DetLicense(2, "verif").String(), vkit.DetLicense(3, "verif").String()}
}

// genParseSafe: in-process search. v2/v3 strings are only truncated / re-suffixed here; character-level
// mutations of snappy+binary encoded licenses run in the child worker (listed finding C20-license-parse-oom).
func genParseSafe(t *rapid.T) ParseCase {
	valid := validLicenses()
	switch rapid.IntRange(0, 4).Draw(t, "mode") {
	case 0:
		return ParseCase{rapid.String().Draw(t, "s")}
	case 1:
		v := rapid.SampledFrom(valid).Draw(t, "v")
		body := v[:len(v)-2]
		return ParseCase{body[:rapid.IntRange(0, len(body)).Draw(t, "cut")] + rapid.SampledFrom([]string{"", ":1", ":2", ":3", ":", ":4"}).Draw(t, "suf")}
	case 2:
		b := []byte(valid[0])
		for i, n := 0, rapid.IntRange(1, 3).Draw(t, "n"); i < n; i++ {
			b[rapid.IntRange(0, len(b)-1).Draw(t, "i")] = alphabet[rapid.IntRange(0, 63).Draw(t, "c")]
		}
		return ParseCase{string(b)}
	case 3:
		return ParseCase{rapid.StringMatching(`[A-Za-z0-9_-]{0,90}(:1)?`).Draw(t, "b64")}
	default:
		return ParseCase{rapid.StringMatching(`[A-Za-z0-9_=+/:-]{0,60}`).Draw(t, "mixed") + rapid.SampledFrom([]string{"", ":1"}).Draw(t, "suf")}
	}
}

func parseOnce(s string) (res string) {
	defer func() {
		if r := recover(); r != nil {
			res = fmt.Sprintf("PANIC %v", r)
		}
	}()
	l, err := license.Parse(s)
	if err != nil {
		return "err"
	}
	if l == nil {
		return "NIL license without an error"
	}
	if _, cerr := l.Cipher(); cerr == nil {
		_ = l.String()
	}
	_, _, _ = l.Contract(), l.Signature(), l.Master()
	return "ok"
}

func runParseSafe(c ParseCase) vkit.Result {
	switch r := parseOnce(c.S); r {
	case "ok":
		return vkit.OK(true, "parse-accepted")
	case "err":
		return vkit.OK(len(c.S) >= 5, "parse-error")
	default:
		return vkit.Failf("license.Parse(%q): %s", c.S, r)
	}
}

func TestParseArbitrary(t *testing.T) { vkit.Check(t, genParseSafe, runParseSafe) }

// ------------------------------------------------------------------ child worker leg (can abort the process)

func init() {
	vkit.RegisterWorker("parse", func(in []byte) []byte { return []byte(parseOnce(string(in))) })
}

func genParseHostile(t *rapid.T) ParseCase {
	valid := validLicenses()
	switch rapid.IntRange(0, 3).Draw(t, "mode") {
	case 0, 1:
		b := []byte(rapid.SampledFrom(valid[1:]).Draw(t, "v"))
		for i, n := 0, rapid.IntRange(1, 2).Draw(t, "n"); i < n; i++ {
			b[rapid.IntRange(0, len(b)-3).Draw(t, "i")] = alphabet[rapid.IntRange(0, 63).Draw(t, "c")]
		}
		return ParseCase{string(b)}
	case 2:
		return ParseCase{rapid.StringMatching(`[A-Za-z0-9_-]{3,90}`).Draw(t, "b64") + rapid.SampledFrom([]string{":2", ":3"}).Draw(t, "suf")}
	default:
		// a snappy literal block wrapping arbitrary bytes: reaches binary.Unmarshal
		raw := rapid.SliceOfN(rapid.Byte(), 0, 50).Draw(t, "raw")
		blk := append([]byte{byte(len(raw))}, byte((len(raw)-1)<<2))
		if len(raw) == 0 {
			blk = []byte{0}
		}
		blk = append(blk, raw...)
		return ParseCase{base64.RawURLEncoding.EncodeToString(blk) + rapid.SampledFrom([]string{":2", ":3"}).Draw(t, "suf")}
	}
}

const oomFinding = "C20-license-parse-oom"

var worker *vkit.Worker

func hostileParse(s string) vkit.Result {
	if worker == nil || !worker.Alive() {
		w, err := vkit.StartWorker("parse", 3000000)
		if err != nil {
			panic(err)
		}
		worker = w
	}
	out, err := worker.Do([]byte(s), 60*time.Second)
	if err != nil {
		d, ok := err.(*vkit.Died)
		if !ok {
			panic(err)
		}
		r := vkit.Failf("license.Parse(%q) takes the process down: %s; frames %v", s, d.Summary(), d.Frames())
		if d.OOM() && !d.Hang {
			for _, f := range d.Frames() {
				if strings.Contains(f, "license.parseV2") || strings.Contains(f, "license.parseV3") {
					r.Finding = oomFinding
				}
			}
		}
		return r
	}
	switch string(out) {
	case "ok":
		return vkit.OK(true, "hostile-accepted")
	case "err":
		return vkit.OK(true, "hostile-error")
	}
	r := vkit.Failf("license.Parse(%q): %s", s, out)
	if (strings.HasSuffix(s, ":2") || strings.HasSuffix(s, ":3")) && (strings.Contains(string(out), "makeslice") || strings.Contains(string(out), "out of range")) {
		// the same trusted length prefix inside kelindar/binary: a length beyond the allocator's limit panics instead of exhausting memory
		r.Finding = oomFinding
	}
	return r
}

func TestParseHostile(t *testing.T) {
	vkit.Check(t, genParseHostile, func(c ParseCase) vkit.Result { return hostileParse(c.S) }, vkit.Opt{})
	if worker != nil {
		worker.Stop()
	}
}

// TestProbeParseOOM replays the minimal reproduction of the listed finding: a valid v2 / v3 license with ONE
// character replaced (the first such substitution, in a fixed scan order, that aborts the process).
func TestProbeParseOOM(t *testing.T) {
	reproduced, note := false, "no single-character substitution of the valid v2/v3 license aborted the child"
scan:
	for _, s := range validLicenses()[1:] {
		for pos := 0; pos < len(s)-2; pos++ {
			for _, ch := range []byte(alphabet) {
				if s[pos] == ch {
					continue
				}
				b := []byte(s)
				b[pos] = ch
				r := hostileParse(string(b))
				if r.Fail != "" && r.Finding == oomFinding {
					reproduced, note = true, fmt.Sprintf("license.Parse(%q) [valid license with character %d replaced by %q]: %s", string(b), pos, ch, r.Fail)
					break scan
				}
				if r.Fail != "" {
					vkit.ReportFailure(t.Name(), ParseCase{string(b)}, r.Fail, "")
					t.Fatalf("%s", r.Fail)
				}
			}
		}
	}
	vkit.Probe(oomFinding, reproduced, note)
	if worker != nil {
		worker.Stop()
	}
}

// TestConcurrentCipher: the broker shares one cipher between all connections; several goroutines encrypt and decrypt
// distinct keys on the same cipher value at once. Every key must still round-trip and distinct keys give distinct strings.
func TestConcurrentCipher(t *testing.T) {
	rounds := vkit.N(20000)
	for v := 1; v <= 3; v++ {
		ci, _ := vkit.DetLicense(v, "verif").Cipher()
		const G = 8
		errs := make(chan string, G)
		seen := make([]map[string]int, G)
		done := make(chan int, G)
		for g := 0; g < G; g++ {
			seen[g] = map[string]int{}
			go func(g int) {
				defer func() { done <- g }()
				for i := 0; i < rounds; i++ {
					k := make([]byte, 24)
					for j := range k {
						k[j] = byte(g*31 + i*7 + j*13 + (i >> 8))
					}
					k[2], k[3], k[4], k[5], k[6] = byte(g), byte(i), byte(i>>8), byte(i>>16), 0x5a
					s, err := ci.EncryptKey(security.Key(k))
					if err != nil || !validString(s) {
						errs <- fmt.Sprintf("EncryptKey under concurrency: %q %v", s, err)
						return
					}
					d, err := ci.DecryptKey([]byte(s))
					if err != nil || !bytes.Equal(d, k) {
						errs <- fmt.Sprintf("license v%d: with %d goroutines sharing the cipher, key %x encrypts to a string that decrypts to %x (%v)", v, G, k, []byte(d), err)
						return
					}
					if _, dup := seen[g][s]; dup {
						errs <- fmt.Sprintf("license v%d: two distinct keys encrypt to %q under concurrency", v, s)
						return
					}
					seen[g][s] = i
				}
			}(g)
		}
		for g := 0; g < G; g++ {
			<-done
		}
		c := map[string]interface{}{"version": v, "goroutines": G, "rounds": rounds}
		select {
		case msg := <-errs:
			vkit.ReportFailure(t.Name(), c, msg, "")
			t.Fatal(msg)
		default:
		}
		vkit.Record(t.Name(), c, vkit.OK(true, "concurrent-cipher"))
	}
}

// TestGeneratedLicenses: licenses produced by the repository's own generators (NewV1/NewV2/NewV3 and license.New, which
// the `emitter license new` command prints) parse back to the same contract, signature, master index and an equivalent
// cipher; the master key generated along with a license is a valid master key of that license.
func TestGeneratedLicenses(t *testing.T) {
	n := vkit.N(300)
	for i := 0; i < n; i++ {
		gens := []license.License{license.NewV1(), license.NewV2(), license.NewV3()}
		for v, l := range gens {
			c := map[string]interface{}{"generator": fmt.Sprintf("NewV%d", v+1), "i": i}
			fail := func(msg string) {
				vkit.ReportFailure(t.Name(), c, msg, "")
				t.Fatal(msg)
			}
			p, err := license.Parse(l.String())
			if err != nil {
				fail(fmt.Sprintf("a license generated by NewV%d does not parse: %v (%q)", v+1, err, l.String()))
			}
			if p.Contract() != l.Contract() || p.Signature() != l.Signature() || p.Master() != l.Master() {
				fail(fmt.Sprintf("NewV%d license parses back to contract/signature/master %d/%d/%d, generated %d/%d/%d", v+1, p.Contract(), p.Signature(), p.Master(), l.Contract(), l.Signature(), l.Master()))
			}
			c1, err1 := l.Cipher()
			c2, err2 := p.Cipher()
			if err1 != nil || err2 != nil {
				fail(fmt.Sprintf("cipher of a generated v%d license: %v / %v", v+1, err1, err2))
			}
			mk, err := l.NewMasterKey(uint16(l.Master()))
			if err != nil {
				fail("NewMasterKey: " + err.Error())
			}
			s1, e1 := c1.EncryptKey(mk)
			if e1 != nil || len(s1) != 32 {
				fail(fmt.Sprintf("master key of a generated v%d license does not encrypt: %v", v+1, e1))
			}
			back, e2 := c2.DecryptKey([]byte(s1))
			if e2 != nil || !bytes.Equal(back, mk) {
				fail(fmt.Sprintf("v%d: the cipher of the parsed license does not decrypt what the cipher of the generated license encrypted (%v)", v+1, e2))
			}
			ct, ok := contract.NewSingleContractProvider(p, usage.NewNoop()).Get(p.Contract())
			if !ok || !ct.Validate(back) || !back.IsMaster() {
				fail(fmt.Sprintf("v%d: the generated master key is not a valid master key of the license it was generated with", v+1))
			}
			vkit.Record(t.Name(), c, vkit.OK(true, fmt.Sprintf("generated-v%d", v+1)))
		}
		// the pair printed by `emitter license new`
		ls, ms := license.New()
		c := map[string]interface{}{"generator": "license.New", "i": i}
		p, err := license.Parse(ls)
		if err != nil {
			vkit.ReportFailure(t.Name(), c, "license.New() returns a license that does not parse: "+err.Error(), "")
			t.Fatal(err)
		}
		cp, _ := p.Cipher()
		k, err := cp.DecryptKey([]byte(ms))
		ct, ok := contract.NewSingleContractProvider(p, usage.NewNoop()).Get(p.Contract())
		if err != nil || !ok || !ct.Validate(k) || !k.IsMaster() || k.IsExpired() {
			msg := fmt.Sprintf("license.New() returns a master key that is not a valid master key of the license returned with it (decrypt error %v)", err)
			vkit.ReportFailure(t.Name(), c, msg, "")
			t.Fatal(msg)
		}
		vkit.Record(t.Name(), c, vkit.OK(true, "generated-pair"))
	}
}
