//go:build verif

// C19 — Message ids and frames encode losslessly; peer forwarding drops nothing.
package c19

import (
	"bytes"
	"fmt"
	"math/rand"
	"runtime"
	"sync"
	"testing"
	"time"

	"github.com/emitter-io/emitter/internal/message"
	"github.com/emitter-io/emitter/internal/service/cluster"
	"github.com/emitter-io/emitter/internal/verif/vkit"
	"github.com/weaveworks/mesh"
	"pgregory.net/rapid"
)

func TestMain(m *testing.M) { vkit.Main(m) }

// MsgSpec describes a message compactly.
type MsgSpec struct {
	ID      int    `json:"id"` // length
	Channel int    `json:"channel"`
	Payload int    `json:"payload"`
	TTL     uint32 `json:"ttl"`
	Fill    byte   `json:"fill"`
}

func (s MsgSpec) build() message.Message {
	mk := func(n int, off byte) []byte {
		if n == 0 {
			return nil
		}
		b := make([]byte, n)
		for i := range b {
			b[i] = s.Fill + off + byte(i)
		}
		return b
	}
	return message.Message{ID: mk(s.ID, 1), Channel: mk(s.Channel, 2), Payload: mk(s.Payload, 3), TTL: s.TTL}
}

func genMsg(t *rapid.T) MsgSpec {
	return MsgSpec{ID: rapid.SampledFrom([]int{0, 1, 8, 16, 24, 40, 64, 112}).Draw(t, "id"), Channel: rapid.SampledFrom([]int{0, 1, 2, 5, 30, 127, 128, 300}).Draw(t, "ch"),
		Payload: rapid.SampledFrom([]int{0, 1, 2, 10, 127, 128, 1000, 16383, 16384, 65536}).Draw(t, "pl"),
		TTL:     rapid.SampledFrom([]uint32{0, 1, 127, 128, 255, 256, 65535, 65536, 1 << 31, 1<<32 - 2, 1<<32 - 1}).Draw(t, "ttl"), Fill: rapid.Byte().Draw(t, "fill")}
}

// FrameCase is a frame of 0..50 messages.
type FrameCase struct {
	Msgs []MsgSpec `json:"msgs"`
}

func genFrame(t *rapid.T) FrameCase {
	n := rapid.SampledFrom([]int{0, 1, 1, 2, 3, 5, 20, 50}).Draw(t, "n")
	c := FrameCase{}
	for i := 0; i < n; i++ {
		c.Msgs = append(c.Msgs, genMsg(t))
	}
	return c
}

func sameMsg(a, b message.Message) string {
	if !bytes.Equal(a.ID, b.ID) {
		return fmt.Sprintf("id %d bytes vs %d bytes", len(a.ID), len(b.ID))
	}
	if !bytes.Equal(a.Channel, b.Channel) {
		return fmt.Sprintf("channel %q vs %q", a.Channel, b.Channel)
	}
	if !bytes.Equal(a.Payload, b.Payload) {
		return fmt.Sprintf("payload %d bytes vs %d bytes", len(a.Payload), len(b.Payload))
	}
	if a.TTL != b.TTL {
		return fmt.Sprintf("ttl %d vs %d", a.TTL, b.TTL)
	}
	return ""
}

func runFrame(c FrameCase) vkit.Result {
	var f message.Frame
	for _, s := range c.Msgs {
		f = append(f, s.build())
	}
	out, err := message.DecodeFrame(f.Encode())
	if err != nil {
		return vkit.Failf("DecodeFrame(Encode(frame of %d)) fails: %v", len(f), err)
	}
	if len(out) != len(f) {
		return vkit.Failf("frame of %d messages decodes to %d", len(f), len(out))
	}
	for i := range f {
		if d := sameMsg(f[i], out[i]); d != "" {
			return vkit.Failf("message %d of the frame changed in encode/decode: %s (spec %+v)", i, d, c.Msgs[i])
		}
		m, err := message.DecodeMessage(f[i].Encode())
		if err != nil {
			return vkit.Failf("DecodeMessage(Encode(m)) fails for %+v: %v", c.Msgs[i], err)
		}
		if d := sameMsg(f[i], m); d != "" {
			return vkit.Failf("message changed in encode/decode: %s (spec %+v)", d, c.Msgs[i])
		}
	}
	// what was returned stays what it was: further encodes / decodes (of other data) must not reach into an earlier result
	encoded := f.Encode()
	keep := append([]byte(nil), encoded...)
	other := message.Frame{{ID: bytes.Repeat([]byte{0xEE}, 24), Channel: []byte("zz/other/"), Payload: bytes.Repeat([]byte{0xDD}, 300), TTL: 77},
		{ID: bytes.Repeat([]byte{0xCC}, 24), Channel: []byte("zz/more/"), Payload: bytes.Repeat([]byte{0xBB}, 3000), TTL: 78}}
	for round := 0; round < 3; round++ {
		o2, err := message.DecodeFrame(other.Encode())
		if err != nil || len(o2) != 2 || sameMsg(o2[1], other[1]) != "" {
			return vkit.Failf("a second frame does not decode (%v)", err)
		}
		if m2, err := message.DecodeMessage(other[round%2].Encode()); err != nil || sameMsg(m2, other[round%2]) != "" {
			return vkit.Failf("a second message does not decode (%v)", err)
		}
	}
	if !bytes.Equal(encoded, keep) {
		return vkit.Failf("the bytes returned by Frame.Encode changed after other frames were encoded")
	}
	for i := range f {
		if d := sameMsg(f[i], out[i]); d != "" {
			return vkit.Failf("message %d of a decoded frame changed after OTHER frames were decoded: %s (spec %+v)", i, d, c.Msgs[i])
		}
	}
	big := false
	for _, s := range c.Msgs {
		if s.Payload >= 16384 || s.TTL >= 65536 {
			big = true
		}
	}
	return vkit.OK(len(f) >= 2 || big, "codec")
}

func TestCodec(t *testing.T) { vkit.Check(t, genFrame, runFrame) }

// TestCodecConcurrent: frames are encoded and decoded by several goroutines at once (forwarding to and from several
// peers); every goroutine must get its own data back.
func TestCodecConcurrent(t *testing.T) {
	rounds := vkit.N(20)
	for round := 0; round < rounds; round++ {
		const G = 8
		var wg sync.WaitGroup
		errs := make(chan string, G)
		for g := 0; g < G; g++ {
			wg.Add(1)
			go func(g int) {
				defer wg.Done()
				for i := 0; i < 300; i++ {
					spec := MsgSpec{ID: 24, Channel: 5 + g, Payload: []int{10, 300, 5000, 20000}[(i+g)%4], TTL: uint32(g*1000 + i), Fill: byte(g*31 + i)}
					f := message.Frame{spec.build(), MsgSpec{ID: 24, Channel: 3, Payload: 1 + i%50, TTL: uint32(i), Fill: byte(g)}.build()}
					out, err := message.DecodeFrame(f.Encode())
					runtime.Gosched()
					if err != nil || len(out) != 2 || sameMsg(out[0], f[0]) != "" || sameMsg(out[1], f[1]) != "" {
						errs <- fmt.Sprintf("goroutine %d iteration %d: frame does not survive encode/decode while %d goroutines use the codec (%v)", g, i, G, err)
						return
					}
					m, err := message.DecodeMessage(f[0].Encode())
					if err != nil || sameMsg(m, f[0]) != "" {
						errs <- fmt.Sprintf("goroutine %d iteration %d: message does not survive encode/decode while %d goroutines use the codec (%v)", g, i, G, err)
						return
					}
				}
			}(g)
		}
		wg.Wait()
		select {
		case m := <-errs:
			vkit.ReportFailure(t.Name(), map[string]int{"round": round}, m, "")
			t.Fatal(m)
		default:
		}
		vkit.Record(t.Name(), map[string]int{"round": round, "goroutines": G}, vkit.OK(true, "codec-concurrent"))
	}
}

// ---------------------------------------------------------------------------------------------

// IDCase: an ssid and a creation schedule (time steps in seconds between consecutive ids of the channel).
type IDCase struct {
	Ssid  []uint32 `json:"ssid"`
	Steps []int    `json:"steps"`
}

func genID(t *rapid.T) IDCase {
	c := IDCase{}
	for i, n := 0, rapid.SampledFrom([]int{2, 2, 3, 4, 8, 24}).Draw(t, "words"); i < n; i++ {
		c.Ssid = append(c.Ssid, rapid.SampledFrom([]uint32{0, 1, 1815237614, 4285801373, 0xffffffff, 0x80000000, 12345, 54321}).Draw(t, "w"))
	}
	c.Steps = rapid.SliceOfN(rapid.SampledFrom([]int{0, 0, 0, 1, 2, 3600}), 1, 12).Draw(t, "steps")
	return c
}

func runID(c IDCase) vkit.Result {
	ssid := message.Ssid(c.Ssid)
	before := time.Now().Unix()
	first := message.NewID(ssid)
	after := time.Now().Unix()
	if got := first.Ssid(); fmt.Sprint(got) != fmt.Sprint(ssid) {
		return vkit.Failf("NewID(%v).Ssid() = %v", ssid, got)
	}
	if first.Contract() != ssid[0] {
		return vkit.Failf("NewID(%v).Contract() = %d", ssid, first.Contract())
	}
	if tm := first.Time(); tm < before || tm > after {
		return vkit.Failf("NewID(...).Time() = %d, created between %d and %d", tm, before, after)
	}
	// ids created later (program order; clock advancing by the drawn steps) sort before earlier ones
	base := int64(1700000000)
	prev := message.NewID(ssid)
	prev.SetTime(base)
	seen := map[string]bool{string(prev): true}
	now := base
	for i, st := range c.Steps {
		now += int64(st)
		id := message.NewID(ssid)
		id.SetTime(now)
		if id.Time() != now {
			return vkit.Failf("SetTime(%d) then Time() = %d", now, id.Time())
		}
		if bytes.Compare(id, prev) >= 0 {
			return vkit.Failf("id #%d created later (time +%d s) does not sort before the earlier one: % x vs % x", i+1, st, []byte(id[:16]), []byte(prev[:16]))
		}
		if seen[string(id)] {
			return vkit.Failf("two equal ids")
		}
		if fmt.Sprint(id.Ssid()) != fmt.Sprint(ssid) {
			return vkit.Failf("id.Ssid() changed after SetTime")
		}
		seen[string(id)] = true
		prev = id
	}
	// the key prefix used for range scans is consistent with the id
	if !prev.HasPrefix(ssid, now) || prev.HasPrefix(ssid, now+1) {
		return vkit.Failf("HasPrefix disagrees with the id's own time %d", now)
	}
	if !prev.Match(ssid, now, now) || prev.Match(ssid, now+1, now+2) {
		return vkit.Failf("Match disagrees with the id's own ssid/time")
	}
	return vkit.OK(len(c.Steps) >= 2, fmt.Sprintf("ssid-words-%d", len(ssid)))
}

func TestIDs(t *testing.T) { vkit.Check(t, genID, runID) }

// TestIDsDistinctConcurrent: G goroutines x N ids: all distinct, per goroutine strictly decreasing.
func TestIDsDistinctConcurrent(t *testing.T) {
	rounds := vkit.N(3)
	for r := 0; r < rounds; r++ {
		const G, N = 8, 10000
		ids := make([][]message.ID, G)
		var wg sync.WaitGroup
		for g := 0; g < G; g++ {
			wg.Add(1)
			go func(g int) {
				defer wg.Done()
				for i := 0; i < N; i++ {
					ids[g] = append(ids[g], message.NewID(message.Ssid{7, uint32(g % 2), 9}))
				}
			}(g)
		}
		wg.Wait()
		seen := make(map[string]bool, G*N)
		c := map[string]int{"goroutines": G, "ids": N, "round": r}
		for g := range ids {
			for i, id := range ids[g] {
				if seen[string(id)] {
					vkit.ReportFailure(t.Name(), c, "two ids created concurrently are equal", "")
					t.Fatal("duplicate id")
				}
				seen[string(id)] = true
				if i > 0 && bytes.Compare(id, ids[g][i-1]) >= 0 {
					vkit.ReportFailure(t.Name(), c, fmt.Sprintf("goroutine %d: id #%d does not sort before id #%d", g, i, i-1), "")
					t.Fatal("order")
				}
			}
		}
		vkit.Record(t.Name(), c, vkit.OK(true, "ids-concurrent"))
	}
}

// ---------------------------------------------------------------------------------------------

// SplitCase: message sizes (payload bytes; ids and channels fixed small) and a byte bound.
type SplitCase struct {
	Sizes []int `json:"sizes"`
	Bound int   `json:"bound"`
	IDLen int   `json:"idlen"` // 16 + 4 per ssid word
}

func genSplit(t *rapid.T) SplitCase {
	c := SplitCase{Bound: rapid.SampledFrom([]int{1, 30, 47, 48, 49, 100, 500, 1000, 5000, 20000}).Draw(t, "bound"), IDLen: rapid.SampledFrom([]int{24, 24, 16, 28, 48, 112}).Draw(t, "idlen")}
	if rapid.IntRange(0, 7).Draw(t, "bigmode") == 0 {
		// messages close to the largest MQTT packet against bounds that are small multiples of it, up to the real peer bound (10 MiB)
		c.Bound = rapid.SampledFrom([]int{65536, 131072, 131200, 200000, 1 << 20, 10 << 20}).Draw(t, "bigbound")
		for i, n := 0, rapid.SampledFrom([]int{1, 2, 3, 16, 17, 40, 161}).Draw(t, "bign"); i < n; i++ {
			c.Sizes = append(c.Sizes, rapid.SampledFrom([]int{65400, 65450, 65480, 65500, 30000}).Draw(t, "bigsize"))
		}
		return c
	}
	for i, n := 0, rapid.SampledFrom([]int{0, 1, 2, 5, 10, 30, 30, 200}).Draw(t, "n"); i < n; i++ {
		c.Sizes = append(c.Sizes, rapid.SampledFrom([]int{0, 1, 2, 10, 50, 100, 452, 453, 454, 4000}).Draw(t, "size"))
	}
	return c
}

func msgSize(m message.Message) int { return len(m.Payload) + len(m.ID) + len(m.Channel) + 20 }

func runSplit(c SplitCase) vkit.Result {
	var f message.Frame
	fits := true
	for i, n := range c.Sizes {
		m := message.Message{ID: bytes.Repeat([]byte{byte(i)}, c.IDLen), Channel: []byte("a/"), Payload: bytes.Repeat([]byte{byte(i)}, n), TTL: uint32(i)}
		f = append(f, m)
		if msgSize(m) >= c.Bound {
			fits = false
		}
	}
	head, tail := f.Split(c.Bound)
	if len(head)+len(tail) != len(f) {
		return vkit.Failf("Split(%d) of %d messages returns %d + %d", c.Bound, len(f), len(head), len(tail))
	}
	for i, m := range append(append(message.Frame{}, head...), tail...) {
		if d := sameMsg(m, f[i]); d != "" {
			return vkit.Failf("Split reorders or changes message %d: %s", i, d)
		}
	}
	sum := 0
	for _, m := range head {
		sum += msgSize(m)
	}
	if len(head) > 0 && sum >= c.Bound {
		return vkit.Failf("head of Split(%d) has size %d", c.Bound, sum)
	}
	if len(tail) > 0 && sum+msgSize(tail[0]) < c.Bound {
		return vkit.Failf("head of Split(%d) is not maximal: size %d, next message %d", c.Bound, sum, msgSize(tail[0]))
	}
	labels := []string{}
	if !fits {
		// a single message at or above the bound cannot occur at the peer (packets are capped at 64 KiB, the bound is 10 MiB)
		return vkit.Result{Excluded: true, Labels: []string{"message-larger-than-bound"}}
	}
	// iterate as processSendQueue does: every message comes out exactly once, in order
	var out message.Frame
	rest := f
	chunks := 0
	for {
		var chunk message.Frame
		chunk, rest = rest.Split(c.Bound)
		if len(chunk) == 0 {
			break
		}
		chunks++
		out = append(out, chunk...)
	}
	if len(out) != len(f) {
		return vkit.Failf("iterated Split(%d) over %d messages that all fit yields %d messages in %d chunks", c.Bound, len(f), len(out), chunks)
	}
	for i := range f {
		if d := sameMsg(out[i], f[i]); d != "" {
			return vkit.Failf("iterated Split changes message %d: %s", i, d)
		}
	}
	if chunks >= 2 {
		labels = append(labels, "split-into>=2-chunks")
	}
	return vkit.Result{NonTrivial: chunks >= 2, Labels: labels}
}

func TestSplit(t *testing.T) { vkit.Check(t, genSplit, runSplit) }

// ---------------------------------------------------------------------------------------------

type recorder struct {
	mu     sync.Mutex
	frames int
	msgs   []message.Message
	bad    string
}

func (r *recorder) GossipUnicast(dst mesh.PeerName, buf []byte) error {
	f, err := message.DecodeFrame(buf)
	r.mu.Lock()
	defer r.mu.Unlock()
	if err != nil {
		r.bad = "frame handed to the transport does not decode: " + err.Error()
		return nil
	}
	r.frames++
	r.msgs = append(r.msgs, f...)
	return nil
}
func (r *recorder) GossipBroadcast(mesh.GossipData)       {}
func (r *recorder) GossipNeighbourSubset(mesh.GossipData) {}
func (r *recorder) count() int {
	r.mu.Lock()
	defer r.mu.Unlock()
	return len(r.msgs)
}

// PeerCase: senders racing the peer's 5 ms flush ticker (the only flusher, as in production).
type PeerCase struct {
	Seed    int64 `json:"seed"`
	Senders int   `json:"senders"`
	PerSend int   `json:"persend"`
	Big     bool  `json:"big"`
}

func runPeer(c PeerCase) string {
	rec := &recorder{}
	p := cluster.VerifNewPeer(rec, mesh.PeerName(42))
	defer p.Close()
	// the cluster refreshes a live peer's activity every second (Swarm.update); without that a peer counts as inactive
	// after 30 s and drops what it is handed - on a saturated machine a case can take that long
	alive := make(chan struct{})
	var amu sync.Mutex
	stopped := false
	stopAlive := func() {
		amu.Lock()
		if !stopped {
			stopped = true
			close(alive)
		}
		amu.Unlock()
	}
	defer stopAlive()
	go func() {
		for {
			select {
			case <-alive:
				return
			case <-time.After(500 * time.Millisecond):
				amu.Lock()
				if !stopped {
					p.VerifSetActivity(time.Now().Unix())
				}
				amu.Unlock()
			}
		}
	}()
	var wg sync.WaitGroup
	for g := 0; g < c.Senders; g++ {
		wg.Add(1)
		go func(g int) {
			defer wg.Done()
			rng := rand.New(rand.NewSource(c.Seed + int64(g)))
			for i := 0; i < c.PerSend; i++ {
				n := rng.Intn(40)
				if c.Big && rng.Intn(50) == 0 {
					n = 60000
				}
				pl := make([]byte, 8+n)
				copy(pl, fmt.Sprintf("%03d%05d", g, i))
				p.Send(&message.Message{ID: message.NewID(message.Ssid{1, 2}), Channel: []byte("a/"), Payload: pl})
				if rng.Intn(200) == 0 {
					time.Sleep(time.Duration(rng.Intn(3)) * time.Millisecond)
				}
			}
		}(g)
	}
	wg.Wait()
	total := c.Senders * c.PerSend
	deadline := time.Now().Add(vkit.WaitCeiling)
	for rec.count() < total && time.Now().Before(deadline) {
		time.Sleep(2 * time.Millisecond)
	}
	time.Sleep(15 * time.Millisecond) // a duplicate would arrive with a later flush
	rec.mu.Lock()
	defer rec.mu.Unlock()
	if rec.bad != "" {
		return rec.bad
	}
	next := make([]int, c.Senders)
	for _, m := range rec.msgs {
		var g, i int
		fmt.Sscanf(string(m.Payload[:8]), "%03d%05d", &g, &i)
		if i != next[g] {
			return fmt.Sprintf("sender %d: message %d passed to the transport where %d was expected (%d of %d messages arrived in %d frames)", g, i, next[g], len(rec.msgs), total, rec.frames)
		}
		next[g]++
	}
	if len(rec.msgs) != total {
		return fmt.Sprintf("%d messages were handed to the active peer, %d reached the transport", total, len(rec.msgs))
	}
	// an inactive peer forwards nothing
	before := len(rec.msgs)
	rec.mu.Unlock()
	stopAlive()
	p.VerifSetActivity(0)
	p.Send(&message.Message{ID: message.NewID(message.Ssid{1, 2}), Channel: []byte("a/"), Payload: []byte("late")})
	time.Sleep(20 * time.Millisecond)
	rec.mu.Lock()
	if len(rec.msgs) != before {
		return "a message handed to an inactive peer was forwarded"
	}
	return ""
}

func TestPeerForwarding(t *testing.T) {
	rounds := vkit.N(10)
	rng := rand.New(rand.NewSource(vkit.Seed()))
	for r := 0; r < rounds; r++ {
		c := PeerCase{Seed: rng.Int63(), Senders: 1 + rng.Intn(8), PerSend: 200 + rng.Intn(2800), Big: rng.Intn(3) == 0}
		if msg := runPeer(c); msg != "" {
			vkit.ReportFailure(t.Name(), c, msg, "")
			t.Fatalf("%s (%+v)", msg, c)
		}
		vkit.Record(t.Name(), c, vkit.OK(c.Senders >= 2, "peer-round"))
	}
}
