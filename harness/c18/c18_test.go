//go:build verif

// C18 — Presence reports who is subscribed.
package c18

import (
	"bytes"
	"encoding/json"
	"fmt"
	"net/http/httptest"
	"sort"
	"strings"
	"testing"
	"time"

	"github.com/eclipse/paho.mqtt.golang/packets"
	"github.com/emitter-io/emitter/internal/security"
	"github.com/emitter-io/emitter/internal/verif/vkit"
	"pgregory.net/rapid"
)

func TestMain(m *testing.M) { vkit.Main(m) }

// Op: sub / unsub / link (auto-subscribe) by actor C on Ch; disc = actor C goes away (End: close|disconnect);
// status = status request for Ch; watch / unwatch = the toggling watcher asks for / cancels changes on Ch.
type Op struct {
	K   string `json:"op"`
	C   int    `json:"c,omitempty"`
	Ch  string `json:"ch,omitempty"`
	End string `json:"end,omitempty"`
	Via string `json:"via,omitempty"` // status: "" request on the connection, noslash (channel given without its trailing /), http (POST /presence), nokey / http-nokey (key without the presence permission: refused)
}

// Case is a history over a few named connections.
type Case struct {
	Users []string `json:"users"`
	Ops   []Op     `json:"ops"`
}

// a/ ~ a/a/a/ ~ a/b/b/ (three ssids with one XOR hash code), a/b/c/ ~ a/c/b/, a/b/a/ ~ b/ : per-connection counter chains
var chans = []string{"a/", "a/b/", "a/b/c/", "x/", "a/b/", "a/", "a/c/b/", "a/b/a/", "b/a/", "a/a/a/", "a/b/b/", "a/a/a/", "a/b/b/", "presence/", "presence/lobby/", "emitter/"}
var watchChans = []string{"a/", "a/b/", "x/", "presence/"} // presence/ and emitter/: ordinary channels named like the broker's reserved words

func genCase(t *rapid.T) Case {
	c := Case{}
	for i, n := 0, rapid.IntRange(2, 4).Draw(t, "actors"); i < n; i++ {
		c.Users = append(c.Users, rapid.SampledFrom([]string{"", "ann", "bob", "ann"}).Draw(t, "user"))
	}
	if rapid.IntRange(0, 3).Draw(t, "watchfirst") > 0 {
		c.Ops = append(c.Ops, Op{K: "watch", Ch: rapid.SampledFrom([]string{"a/", "a/", "a/b/"}).Draw(t, "w0")})
	}
	for i, n := 0, rapid.IntRange(1, 30).Draw(t, "nops"); i < n; i++ {
		op := Op{C: rapid.IntRange(0, len(c.Users)-1).Draw(t, "c"), Ch: rapid.SampledFrom(chans).Draw(t, "ch")}
		switch k := rapid.IntRange(0, 19).Draw(t, "kind"); {
		case k < 7:
			op.K = "sub"
		case k < 11:
			op.K = "unsub"
		case k < 12:
			op.K = "link"
		case k < 14:
			op.K = "disc"
			op.End = rapid.SampledFrom([]string{"close", "disconnect"}).Draw(t, "end")
		case k < 17:
			op.K = "status"
			op.Via = rapid.SampledFrom([]string{"", "", "", "noslash", "http", "http", "nokey", "http-nokey"}).Draw(t, "via")
		case k < 18:
			op.K = "watch"
			op.Ch = rapid.SampledFrom(watchChans).Draw(t, "wch")
		default:
			op.K = "unwatch"
			op.Ch = rapid.SampledFrom(watchChans).Draw(t, "wch")
		}
		c.Ops = append(c.Ops, op)
	}
	return c
}

type notif struct {
	Event   string `json:"event"`
	Channel string `json:"channel"`
	Who     struct {
		ID       string `json:"id"`
		Username string `json:"username"`
	} `json:"who"`
}

type env struct {
	b             *vkit.Broker
	key           string
	keyNoPresence string       // read / write only
	perm          *vkit.Client // permanent watcher on a/ and x/: proves the presence queue has drained
	sentinel      *vkit.Client
	sentID        string
	seq           int
}

var shared *env

func meID(c *vkit.Client) (string, error) {
	pubs, err := c.Request(2, "me", map[string]string{})
	if err != nil || len(pubs) != 1 {
		return "", fmt.Errorf("me request: %v (%d replies)", err, len(pubs))
	}
	var me struct {
		ID string `json:"id"`
	}
	json.Unmarshal(pubs[0].Payload, &me)
	if me.ID == "" {
		return "", fmt.Errorf("me response without id: %s", pubs[0].Payload)
	}
	return me.ID, nil
}

func presence(c *vkit.Client, key, ch string, status bool, changes *bool) ([]*packets.PublishPacket, error) {
	req := map[string]interface{}{"key": key, "channel": ch, "status": status}
	if changes != nil {
		req["changes"] = *changes
	}
	return c.Request(3, "presence", req)
}

func getEnv() (*env, error) {
	if shared != nil {
		return shared, nil
	}
	b, err := vkit.NewBroker(vkit.BrokerOpts{})
	if err != nil {
		return nil, err
	}
	e := &env{b: b, key: b.Key("#/", security.AllowReadWrite|security.AllowPresence), keyNoPresence: b.Key("#/", security.AllowReadWrite)}
	e.perm = b.Attach("permanent-watcher")
	if err := e.perm.Connect("perm", "perm", nil); err != nil {
		return nil, err
	}
	yes := true
	for _, ch := range []string{"a/", "x/"} {
		if _, err := presence(e.perm, e.key, ch, false, &yes); err != nil {
			return nil, err
		}
	}
	e.sentinel = b.Attach("sentinel")
	if err := e.sentinel.Connect("sentinel", "sentinel", nil); err != nil {
		return nil, err
	}
	if e.sentID, err = meID(e.sentinel); err != nil {
		return nil, err
	}
	shared = e
	return e, nil
}

func decode(p *packets.PublishPacket) (notif, error) {
	var n notif
	if !strings.HasPrefix(p.TopicName, "emitter/presence") {
		return n, fmt.Errorf("watcher received a packet on %q: %q", p.TopicName, p.Payload)
	}
	err := json.Unmarshal(p.Payload, &n)
	return n, err
}

// drain waits until the permanent watcher has seen the sentinel's subscribe+unsubscribe on a fresh channel under a/:
// the presence queue is one FIFO goroutine, so every notification queued earlier has been fanned out by then.
func (e *env) drain() ([]notif, error) {
	e.seq++
	ch := fmt.Sprintf("a/zz%d/", e.seq)
	// keep-alive: the broker drops connections that send nothing for 120 s, and the permanent watcher only listens
	e.perm.Send(packets.NewControlPacket(packets.Pingreq))
	if codes, _, err := e.sentinel.Subscribe(7, e.key+"/"+ch); err != nil || codes[0] == 0x80 {
		return nil, fmt.Errorf("sentinel subscribe: %v %v", codes, err)
	}
	if _, err := e.sentinel.Unsubscribe(8, e.key+"/"+ch); err != nil {
		return nil, err
	}
	var seen []notif
	deadline := time.After(vkit.WaitCeiling)
	for {
		select {
		case m, ok := <-e.perm.In:
			if !ok {
				return nil, fmt.Errorf("permanent watcher closed")
			}
			p, isPub := m.(*packets.PublishPacket)
			if !isPub {
				continue
			}
			n, err := decode(p)
			if err != nil {
				return nil, err
			}
			if n.Who.ID == e.sentID {
				if n.Event == "unsubscribe" && n.Channel == ch {
					return seen, nil
				}
				continue
			}
			seen = append(seen, n)
		case <-deadline:
			return nil, fmt.Errorf("the permanent presence watcher did not see the sentinel's notifications within the ceiling")
		}
	}
}

type actor struct {
	c    *vkit.Client
	id   string
	user string
	subs map[string]bool
}

func fmtN(ev, ch, id string) string { return ev + " " + ch + " " + id }

func run(c Case) vkit.Result {
	e, err := getEnv()
	if err != nil {
		panic(err)
	}
	fail := func(format string, a ...interface{}) vkit.Result {
		shared = nil
		return vkit.Failf(format, a...)
	}
	w := e.b.Attach("toggling-watcher")
	if err := w.Connect("w", "watcher", nil); err != nil {
		return fail("connect: %v", err)
	}
	watching := map[string]bool{}
	actors := make([]*actor, len(c.Users))
	for i, u := range c.Users {
		a := &actor{c: e.b.Attach(fmt.Sprintf("actor%d", i)), user: u, subs: map[string]bool{}}
		if err := a.c.Connect(fmt.Sprintf("actor%d", i), u, nil); err != nil {
			return fail("connect: %v", err)
		}
		if a.id, err = meID(a.c); err != nil {
			return fail("%v", err)
		}
		actors[i] = a
	}
	if _, err := e.drain(); err != nil {
		return fail("%v", err)
	}
	labels := map[string]bool{}
	transitions, discSeen := 0, false
	// verify: what each watcher saw since the last verification
	verify := func(step int, op Op, ordered []string, unordered []string) string {
		var wantPerm, wantW []string
		seenBy := func(ch string, set map[string]bool) bool {
			for wch := range set {
				if vkit.MatchStr(false, wch, ch) {
					return true
				}
			}
			return false
		}
		permSet := map[string]bool{"a/": true, "x/": true}
		split := func(list []string) (p, t []string) {
			for _, n := range list {
				ch := strings.Fields(n)[1]
				if seenBy(ch, permSet) {
					p = append(p, n)
				}
				if seenBy(ch, watching) {
					t = append(t, n)
				}
			}
			return
		}
		po, to := split(ordered)
		pu, tu := split(unordered)
		wantPerm, wantW = po, to
		gotPermN, err := e.drain()
		if err != nil {
			return err.Error()
		}
		var gotPerm, gotW []string
		for _, n := range gotPermN {
			gotPerm = append(gotPerm, fmtN(n.Event, n.Channel, n.Who.ID))
		}
		pubs, err := w.Barrier() // conclusive: the queue goroutine has finished every earlier fan-out
		if err != nil {
			return "barrier on the toggling watcher: " + err.Error()
		}
		for _, p := range pubs {
			n, err := decode(p)
			if err != nil {
				return err.Error()
			}
			if n.Who.ID == e.sentID {
				continue
			}
			gotW = append(gotW, fmtN(n.Event, n.Channel, n.Who.ID))
			for _, a := range actors {
				if a.id == n.Who.ID && a.user != n.Who.Username {
					return fmt.Sprintf("notification for connection of user %q carries username %q", a.user, n.Who.Username)
				}
			}
		}
		cmp := func(who string, got, wantOrdered, wantUnordered []string) string {
			k := len(wantOrdered)
			if len(got) != k+len(wantUnordered) || fmt.Sprint(got[:k]) != fmt.Sprint(wantOrdered) {
				return fmt.Sprintf("step %d %+v: %s received %v, expected %v then (any order) %v", step, op, who, got, wantOrdered, wantUnordered)
			}
			tail := append([]string{}, got[k:]...)
			sort.Strings(tail)
			exp := append([]string{}, wantUnordered...)
			sort.Strings(exp)
			if fmt.Sprint(tail) != fmt.Sprint(exp) {
				return fmt.Sprintf("step %d %+v: %s received %v, expected (any order) %v", step, op, who, tail, exp)
			}
			return ""
		}
		if msg := cmp("the permanent watcher (a/, x/)", gotPerm, wantPerm, pu); msg != "" {
			return msg
		}
		if msg := cmp(fmt.Sprintf("the watcher with changes on %v", keysOf(watching)), gotW, wantW, tu); msg != "" {
			return msg
		}
		if len(watching) > 0 && len(gotW) > 0 {
			labels["watcher-notified"] = true
		}
		if len(watching) == 0 && len(ordered)+len(unordered) > 0 {
			labels["cancelled-watcher-stays-silent"] = true
		}
		return ""
	}
	for step, op := range c.Ops {
		a := actors[op.C]
		var ordered, unordered []string
		switch op.K {
		case "sub", "unsub", "link":
			if a.c == nil {
				continue
			}
			switch op.K {
			case "sub":
				codes, pubs, err := a.c.Subscribe(uint16(step+1), e.key+"/"+op.Ch)
				if err != nil || codes[0] == 0x80 || len(pubs) != 0 {
					return fail("step %d: subscribe: %v %v (%d packets)", step, codes, err, len(pubs))
				}
			case "link":
				if _, err := a.c.Request(uint16(step+1), "link", map[string]interface{}{"name": "l1", "key": e.key, "channel": op.Ch, "subscribe": true}); err != nil {
					return fail("step %d: link: %v", step, err)
				}
				labels["link-autosubscribe"] = true
			case "unsub":
				if _, err := a.c.Unsubscribe(uint16(step+1), e.key+"/"+op.Ch); err != nil {
					return fail("step %d: unsubscribe: %v", step, err)
				}
			}
			if op.K != "unsub" && !a.subs[op.Ch] {
				a.subs[op.Ch] = true
				ordered = append(ordered, fmtN("subscribe", op.Ch, a.id))
				transitions++
			} else if op.K == "unsub" && a.subs[op.Ch] {
				delete(a.subs, op.Ch)
				ordered = append(ordered, fmtN("unsubscribe", op.Ch, a.id))
				transitions++
			} else {
				labels["no-op-transition"] = true
			}
		case "disc":
			if a.c == nil {
				continue
			}
			if op.End == "disconnect" {
				a.c.Send(packets.NewControlPacket(packets.Disconnect))
				if err := a.c.WaitClosed(); err != nil {
					return fail("step %d: %v", step, err)
				}
				a.c.Conn.Close()
			} else if err := a.c.Close(); err != nil {
				return fail("step %d: close: %v", step, err)
			}
			for ch := range a.subs {
				unordered = append(unordered, fmtN("unsubscribe", ch, a.id))
				transitions++
			}
			a.c, a.subs = nil, map[string]bool{}
			discSeen = true
		case "status":
			var st struct {
				Status  int    `json:"status"`
				Event   string `json:"event"`
				Channel string `json:"channel"`
				Who     []struct {
					ID       string `json:"id"`
					Username string `json:"username"`
				} `json:"who"`
			}
			askKey, askCh := e.key, op.Ch
			if strings.HasSuffix(op.Via, "nokey") {
				askKey = e.keyNoPresence
			}
			if op.Via == "noslash" {
				askCh = strings.TrimSuffix(op.Ch, "/")
			}
			if strings.HasPrefix(op.Via, "http") {
				body, _ := json.Marshal(map[string]interface{}{"key": askKey, "channel": askCh})
				rec := httptest.NewRecorder()
				e.b.S.VerifHTTPHandler().ServeHTTP(rec, httptest.NewRequest("POST", "/presence", bytes.NewReader(body)))
				if op.Via == "http-nokey" {
					if rec.Code != 401 {
						return fail("step %d: POST /presence with a key that lacks the presence permission answered %d, expected 401", step, rec.Code)
					}
					labels["status-refused"] = true
					break
				}
				if rec.Code != 200 {
					return fail("step %d: POST /presence for %s with a key that has the presence permission answered HTTP %d (%s)", step, op.Ch, rec.Code, strings.TrimSpace(rec.Body.String()))
				}
				if err := json.Unmarshal(rec.Body.Bytes(), &st); err != nil || st.Event != "status" || st.Channel != op.Ch {
					return fail("step %d: POST /presence response %q", step, rec.Body.String())
				}
				labels["status-over-http"] = true
			} else {
				pubs, err := presence(e.sentinel, askKey, askCh, true, nil)
				if err != nil || len(pubs) != 1 {
					return fail("step %d: status request: %v (%d replies)", step, err, len(pubs))
				}
				if op.Via == "nokey" {
					var er struct {
						Status int `json:"status"`
					}
					if json.Unmarshal(pubs[0].Payload, &er) != nil || er.Status != 401 {
						return fail("step %d: status request with a key that lacks the presence permission answered %q, expected status 401", step, pubs[0].Payload)
					}
					labels["status-refused"] = true
					break
				}
				if err := json.Unmarshal(pubs[0].Payload, &st); err != nil || st.Status != 200 || st.Event != "status" || st.Channel != op.Ch {
					return fail("step %d: status response %q", step, pubs[0].Payload)
				}
			}
			var got, want []string
			for _, x := range st.Who {
				got = append(got, x.ID+"/"+x.Username)
			}
			for _, o := range actors {
				if o.c == nil {
					continue
				}
				for f := range o.subs {
					if vkit.MatchStr(false, f, op.Ch) {
						want = append(want, o.id+"/"+o.user)
						break
					}
				}
			}
			sort.Strings(got)
			sort.Strings(want)
			if fmt.Sprint(got) != fmt.Sprint(want) {
				return fail("step %d: presence status of %s lists %v, the connections that would receive a publish there are %v", step, op.Ch, got, want)
			}
			if len(want) > 0 {
				labels["status-nonempty"] = true
			}
		case "watch", "unwatch":
			v := op.K == "watch"
			if _, err := presence(w, e.key, op.Ch, false, &v); err != nil {
				return fail("step %d: %s: %v", step, op.K, err)
			}
			if v {
				watching[op.Ch] = true
			} else {
				delete(watching, op.Ch)
			}
		}
		if msg := verify(step, op, ordered, unordered); msg != "" {
			return fail("%s", msg)
		}
	}
	for _, a := range actors {
		if a.c != nil {
			if err := a.c.Close(); err != nil {
				return fail("close: %v", err)
			}
		}
	}
	if err := w.Close(); err != nil {
		return fail("close: %v", err)
	}
	if _, err := e.drain(); err != nil {
		return fail("%v", err)
	}
	r := vkit.Result{NonTrivial: transitions >= 2 && discSeen && labels["watcher-notified"]}
	for l := range labels {
		r.Labels = append(r.Labels, l)
	}
	sort.Strings(r.Labels)
	return r
}

func keysOf(m map[string]bool) []string {
	var out []string
	for k := range m {
		out = append(out, k)
	}
	sort.Strings(out)
	return out
}

func TestPresence(t *testing.T) { vkit.Check(t, genCase, run) }

// TestOrderUnderBacklog: one connection makes many subscribe/unsubscribe transitions on one channel while the
// watcher does not read its socket (the 100-slot presence queue saturates); once it reads again it must see
// exactly the alternating sequence, in order.
func TestOrderUnderBacklog(t *testing.T) {
	rounds := vkit.N(2)
	for round := 0; round < rounds; round++ {
		e, err := getEnv()
		if err != nil {
			t.Fatal(err)
		}
		n := 1200 + 400*round
		c := map[string]int{"transitions": 2 * n, "round": round}
		fail := func(msg string) {
			shared = nil
			vkit.ReportFailure(t.Name(), c, msg, "")
			t.Fatal(msg)
		}
		a := e.b.Attach("flapper")
		if err := a.Connect("flapper", "flap", nil); err != nil {
			t.Fatal(err)
		}
		id, err := meID(a)
		if err != nil {
			t.Fatal(err)
		}
		if _, err := e.drain(); err != nil {
			fail(err.Error())
		}
		e.perm.Pause()
		done := make(chan error, 1)
		go func() {
			for i := 0; i < n; i++ {
				if _, _, err := a.Subscribe(uint16(i+1), e.key+"/a/flap/"); err != nil {
					done <- err
					return
				}
				if _, err := a.Unsubscribe(uint16(i+1), e.key+"/a/flap/"); err != nil {
					done <- err
					return
				}
			}
			done <- nil
		}()
		time.Sleep(200 * time.Millisecond)
		e.perm.Resume()
		select {
		case err := <-done:
			if err != nil {
				fail("subscribe/unsubscribe loop: " + err.Error())
			}
		case <-time.After(vkit.WaitCeiling):
			fail("subscribe/unsubscribe loop did not finish after the watcher resumed reading")
		}
		seen, err := e.drain()
		if err != nil {
			fail(err.Error())
		}
		want := "subscribe"
		count := 0
		for _, nt := range seen {
			if nt.Who.ID != id || nt.Channel != "a/flap/" {
				fail(fmt.Sprintf("unexpected notification %+v", nt))
			}
			if nt.Event != want {
				fail(fmt.Sprintf("notification #%d is %q where %q was expected: the order of the connection's transitions is not preserved", count, nt.Event, want))
			}
			count++
			if want == "subscribe" {
				want = "unsubscribe"
			} else {
				want = "subscribe"
			}
		}
		if count != 2*n {
			fail(fmt.Sprintf("%d notifications for %d transitions", count, 2*n))
		}
		// second phase: many transitions made by ONE request (a SUBSCRIBE / UNSUBSCRIBE packet with many topics), i.e.
		// without a network round trip in between, again behind a watcher that is not reading
		const m = 900
		sp := packets.NewControlPacket(packets.Subscribe).(*packets.SubscribePacket)
		up := packets.NewControlPacket(packets.Unsubscribe).(*packets.UnsubscribePacket)
		sp.MessageID, up.MessageID = 9, 10
		for i := 0; i < m; i++ {
			sp.Topics = append(sp.Topics, fmt.Sprintf("%s/a/t%d/", e.key, i))
			sp.Qoss = append(sp.Qoss, 0)
			up.Topics = append(up.Topics, fmt.Sprintf("%s/a/t%d/", e.key, i))
		}
		for phase, pk := range []packets.ControlPacket{sp, up} {
			e.perm.Pause()
			if err := a.Send(pk); err != nil {
				e.perm.Resume()
				fail(err.Error())
			}
			for i := 0; i < 600; i++ { // until the presence queue is full behind the watcher that is not reading (at most 3 s)
				if n, c := e.b.S.VerifPresence().VerifQueueLen(); n >= c {
					break
				}
				time.Sleep(5 * time.Millisecond)
			}
			time.Sleep(20 * time.Millisecond)
			e.perm.Resume()
			ack, ev := byte(packets.Suback), "subscribe"
			if phase == 1 {
				ack, ev = packets.Unsuback, "unsubscribe"
			}
			if _, _, err := a.Until(ack); err != nil {
				fail(fmt.Sprintf("%s of %d topics behind a slow watcher: %v", ev, m, err))
			}
			seen, err := e.drain()
			if err != nil {
				fail(err.Error())
			}
			if len(seen) != m {
				fail(fmt.Sprintf("%d %s notifications for %d transitions made by one request", len(seen), ev, m))
			}
			for i, nt := range seen {
				if nt.Who.ID != id || nt.Event != ev || nt.Channel != fmt.Sprintf("a/t%d/", i) {
					fail(fmt.Sprintf("%s notification #%d is for %s (%s); the connection made transition #%d on a/t%d/: order not preserved", ev, i, nt.Channel, nt.Event, i, i))
				}
			}
		}
		a.Close()
		e.drain()
		vkit.Record(t.Name(), c, vkit.OK(true, "order-under-backlog"))
	}
}

// TestCancelBehindBacklog: a watcher cancels its request while notifications for its channel are still waiting in the
// presence queue (the sender is stuck on another watcher that does not read). The cancel is confirmed; whatever is
// delivered afterwards must not reach the watcher that cancelled. The sender is blocked on a notification of a channel
// only the other watcher follows (x/), so nothing for the cancelling watcher is in flight when it cancels.
func TestCancelBehindBacklog(t *testing.T) {
	rounds := vkit.N(3)
	for round := 0; round < rounds; round++ {
		e, err := getEnv()
		if err != nil {
			t.Fatal(err)
		}
		c := map[string]int{"round": round}
		fail := func(msg string) {
			shared = nil
			vkit.ReportFailure(t.Name(), c, msg, "")
			t.Fatal(msg)
		}
		w2 := e.b.Attach("canceller")
		act := e.b.Attach("mover")
		if err := w2.Connect("canceller", "w2", nil); err != nil {
			t.Fatal(err)
		}
		if err := act.Connect("mover", "mv", nil); err != nil {
			t.Fatal(err)
		}
		yes, no := true, false
		if _, err := presence(w2, e.key, "a/", false, &yes); err != nil {
			fail(err.Error())
		}
		if _, err := e.drain(); err != nil {
			fail(err.Error())
		}
		// the sender gets stuck on the permanent watcher with notifications of x/ (which w2 does not follow)
		e.perm.Pause()
		for i := 0; i < 4; i++ {
			if _, _, err := act.Subscribe(uint16(10+i), fmt.Sprintf("%s/x/stuck%d-%d/", e.key, round, i)); err != nil {
				e.perm.Resume()
				fail(err.Error())
			}
		}
		time.Sleep(50 * time.Millisecond)
		// transitions on the channel w2 watches: their notifications queue up behind the stuck sender
		k := 3 + round
		for i := 0; i < k; i++ {
			if _, _, err := act.Subscribe(uint16(20+i), fmt.Sprintf("%s/a/late%d-%d/", e.key, round, i)); err != nil {
				e.perm.Resume()
				fail(err.Error())
			}
		}
		// nothing for w2 has been sent yet (the queue is stuck); it cancels and the cancel is confirmed
		early, err := w2.Barrier()
		if err != nil {
			e.perm.Resume()
			fail(err.Error())
		}
		if _, err := presence(w2, e.key, "a/", false, &no); err != nil {
			e.perm.Resume()
			fail(err.Error())
		}
		e.perm.Resume()
		if _, err := e.drain(); err != nil { // the queue has been worked off completely
			fail(err.Error())
		}
		late, err := w2.Barrier()
		if err != nil {
			fail(err.Error())
		}
		if len(late) > 0 {
			fail(fmt.Sprintf("a watcher cancelled its presence request on a/ (confirmed) while %d notifications were still queued; %d of them were delivered to it afterwards (%d had reached it before the cancel)", k, len(late), len(early)))
		}
		act.Close()
		w2.Close()
		if _, err := e.drain(); err != nil {
			fail(err.Error())
		}
		vkit.Record(t.Name(), c, vkit.OK(true, "cancel-behind-backlog"))
	}
}
