//go:build verif

// C04 — Replicated cluster state converges regardless of delivery order.
package c04

import (
	"testing"

	"github.com/emitter-io/emitter/internal/verif/vkit"
)

func TestMain(m *testing.M) { vkit.Main(m) }

func TestConvergence(t *testing.T) {
	vkit.Check(t, vkit.GenCrdtCase, func(c vkit.CrdtCase) vkit.Result { return vkit.RunCrdtCase(c, vkit.CrdtChecks{State: true}) })
}

// TestReplicaUnderConcurrency: local operations, merges and reads on one replica at the same time (see vkit/crdtrace.go).
func TestReplicaUnderConcurrency(t *testing.T) { vkit.Check(t, vkit.GenCrdtRace, vkit.RunCrdtRace) }
