//go:build verif

package c13

// A payload that arrives damaged half way: its first subsets decode and carry news, a later one does not (a value
// shorter than the two time stamps, an entry cut short - a peer of another version, a truncated frame). Whatever the
// broker makes of it, the relay rule must keep holding at the broker's gossip entry points (the transport passes a
// delta on only when the call reports no error): whatever changed the broker's own state is in a delta that is
// handed on. Rejecting the payload as a whole (nothing changes, nothing relayed) is equally fine.

import (
	"encoding/binary"
	"fmt"
	"testing"

	"github.com/emitter-io/emitter/internal/event"
	"github.com/emitter-io/emitter/internal/message"
	"github.com/emitter-io/emitter/internal/security"
	"github.com/emitter-io/emitter/internal/verif/vkit"
	"github.com/golang/snappy"
	"github.com/weaveworks/mesh"
	"pgregory.net/rapid"
)

// DamagedCase: how many new subscriptions the readable part carries, how the rest is damaged, which entry point.
type DamagedCase struct {
	News   int    `json:"news"`
	Known  int    `json:"known"`  // entries the receiver already has (no news)
	Damage string `json:"damage"` // short-value, cut-entry, huge-count, none
	Via    string `json:"via"`    // gossip, broadcast
}

func genDamaged(t *rapid.T) DamagedCase {
	return DamagedCase{News: rapid.IntRange(0, 4).Draw(t, "news"), Known: rapid.IntRange(0, 2).Draw(t, "known"),
		Damage: rapid.SampledFrom([]string{"short-value", "short-value", "cut-entry", "empty-value", "none"}).Draw(t, "damage"),
		Via:    rapid.SampledFrom([]string{"gossip", "broadcast"}).Draw(t, "via")}
}

func damagedSub(i int) *event.Subscription {
	return &event.Subscription{Peer: 9, Conn: security.ID(100 + i), Ssid: message.Ssid{1, uint32(50 + i)}, Channel: []byte(fmt.Sprintf("dmg/%d/", i))}
}

func runDamaged(c DamagedCase) vkit.Result {
	b, err := vkit.NewBroker(vkit.BrokerOpts{Node: "00:00:00:00:13:01", LicSeed: "c13"})
	if err != nil {
		panic(err)
	}
	defer b.Close()
	sw := b.S.VerifSwarm()
	src := event.NewState("")
	for i := 0; i < c.Known; i++ {
		src.Add(damagedSub(i))
	}
	if c.Known > 0 { // the receiver learns these first, from a well-formed payload
		if _, err := sw.OnGossip(src.Encode()[0]); err != nil {
			return vkit.Failf("well-formed payload refused: %v", err)
		}
	}
	for i := 0; i < c.News; i++ {
		src.Add(damagedSub(10 + i))
	}
	raw, err := snappy.Decode(nil, src.Encode()[0])
	if err != nil {
		panic(err)
	}
	n, k := binary.Uvarint(raw)
	var out []byte
	var vb [10]byte
	key := []byte("entry-after-the-readable-part")
	if c.Damage != "none" {
		n++
	}
	out = append(out, vb[:binary.PutUvarint(vb[:], n)]...)
	out = append(out, raw[k:]...)
	switch c.Damage {
	case "short-value": // a value of 8 bytes where two 8-byte time stamps are expected
		out = append(out, 7, 1, byte(len(key)))
		out = append(append(out, key...), 8, 0, 0, 0, 0, 0, 0, 0, 5)
	case "empty-value":
		out = append(out, 7, 1, byte(len(key)))
		out = append(append(out, key...), 0)
	case "cut-entry": // the frame ends in the middle of the entry's key
		out = append(out, 7, 2, byte(len(key)))
		out = append(out, key[:5]...)
	}
	buf := snappy.Encode(nil, out)
	snapshot := func() map[string][2]int64 {
		m := map[string][2]int64{}
		sw.VerifState().Subscriptions(func(ev *event.Subscription, v event.Value) { m[ev.Key()] = [2]int64{v.AddTime(), v.DelTime()} })
		return m
	}
	before := snapshot()
	var delta mesh.GossipData
	if c.Via == "gossip" {
		delta, err = sw.OnGossip(buf)
	} else {
		delta, err = sw.OnGossipBroadcast(mesh.PeerName(9), buf)
	}
	after := snapshot()
	changed := 0
	relayed := map[string]bool{}
	if err == nil && delta != nil { // what the transport hands on
		delta.(*event.State).Subscriptions(func(ev *event.Subscription, v event.Value) { relayed[ev.Key()] = true })
	}
	for key, v := range after {
		if before[key] != v {
			changed++
			if !relayed[key] {
				return vkit.Failf("a payload whose readable part carries %d new subscriptions and whose last subset is damaged (%s) arrived via %s: the broker merged %q into its own state, but the call returned (delta %v, err %v) - the transport hands nothing on, the update is withheld from onward relay",
					c.News, c.Damage, c.Via, key, delta != nil, err)
			}
		}
	}
	if c.Damage == "none" && changed != c.News {
		return vkit.Failf("well-formed payload with %d new subscriptions: %d entries of the receiver changed", c.News, changed)
	}
	labels := []string{"damage-" + c.Damage, "via-" + c.Via}
	if err != nil {
		labels = append(labels, "payload-rejected")
	}
	if changed > 0 {
		labels = append(labels, "state-changed")
	}
	return vkit.Result{NonTrivial: c.News > 0 && c.Damage != "none", Labels: labels}
}

func TestDamagedPayload(t *testing.T) { vkit.Check(t, genDamaged, runDamaged) }
