//go:build verif

// C13 — Gossip payloads carry exactly what is new and lose nothing queued.
// (a) delta exactness of State.Merge on the shared replicated-state machine (vkit/crdtsim.go);
// (b) payloads queued on the transcribed mesh sender: what is finally put on the wire carries every queued update.
package c13

import (
	"fmt"
	"sort"
	"strings"
	"testing"

	"github.com/emitter-io/emitter/internal/event"
	"github.com/emitter-io/emitter/internal/event/crdt"
	"github.com/emitter-io/emitter/internal/message"
	"github.com/emitter-io/emitter/internal/security"
	"github.com/emitter-io/emitter/internal/verif/vkit"
	"github.com/golang/snappy"
	"github.com/weaveworks/mesh"
	"pgregory.net/rapid"
)

func TestMain(m *testing.M) { vkit.Main(m) }

func TestDeltaExact(t *testing.T) {
	vkit.Check(t, vkit.GenCrdtCase, func(c vkit.CrdtCase) vkit.Result {
		return vkit.RunCrdtCase(c, vkit.CrdtChecks{State: true, Delta: true})
	})
}

// ---------------------------------------------------------------------------------------------

// Entry is one (event, add time, remove time) triple; 0 = not set.
type Entry struct {
	Ev  int   `json:"ev"`
	Add int64 `json:"add,omitempty"`
	Del int64 `json:"del,omitempty"`
}

// QPayload describes a payload object. Kind: "op" (what Swarm.Notify broadcasts), "delta" (several entries, as a
// relayed delta), "full" (the live volatile state object, as Swarm.Gossip returns), "full-durable".
type QPayload struct {
	Kind    string  `json:"kind"`
	Entries []Entry `json:"entries"`
}

// QStep queues payload P on the listed links: Send=true into the gossip bucket, else broadcast bucket of Src.
type QStep struct {
	Send  bool  `json:"send,omitempty"`
	Src   int   `json:"src,omitempty"`
	P     int   `json:"p"`
	Links []int `json:"links"`
}

// SenderCase is a queueing history followed by draining every link.
type SenderCase struct {
	Payloads []QPayload `json:"payloads"`
	Steps    []QStep    `json:"steps"`
	NLinks   int        `json:"nlinks"`
	Coalesce bool       `json:"coalesce"` // false: a link is drained before a second payload enters an occupied bucket
}

func genSenderCase(t *rapid.T) SenderCase {
	c := SenderCase{NLinks: rapid.IntRange(1, 3).Draw(t, "links"), Coalesce: rapid.IntRange(0, 2).Draw(t, "coalesce") > 0}
	nev := len(vkit.CrdtEvents())
	for i, n := 0, rapid.IntRange(1, 5).Draw(t, "npayloads"); i < n; i++ {
		p := QPayload{Kind: rapid.SampledFrom([]string{"op", "op", "op", "delta", "full", "full-durable"}).Draw(t, "kind")}
		ne := 1
		if p.Kind != "op" {
			ne = rapid.IntRange(1, 4).Draw(t, "nentries")
		}
		for j := 0; j < ne; j++ {
			e := Entry{Ev: rapid.IntRange(0, nev-1).Draw(t, "ev")}
			switch rapid.IntRange(0, 2).Draw(t, "which") {
			case 0:
				e.Add = rapid.Int64Range(1, 8).Draw(t, "add")
			case 1:
				e.Del = rapid.Int64Range(1, 8).Draw(t, "del")
			default:
				e.Add, e.Del = rapid.Int64Range(1, 8).Draw(t, "add"), rapid.Int64Range(1, 8).Draw(t, "del")
			}
			if p.Kind == "op" && e.Add != 0 && e.Del != 0 {
				e.Del = 0
			}
			p.Entries = append(p.Entries, e)
		}
		c.Payloads = append(c.Payloads, p)
	}
	for i, n := 0, rapid.IntRange(1, 6).Draw(t, "nsteps"); i < n; i++ {
		s := QStep{P: rapid.IntRange(0, len(c.Payloads)-1).Draw(t, "p"), Src: rapid.IntRange(1, 2).Draw(t, "src")}
		k := c.Payloads[s.P].Kind
		s.Send = strings.HasPrefix(k, "full") || (k == "delta" && rapid.Bool().Draw(t, "send"))
		for l := 0; l < c.NLinks; l++ {
			if rapid.IntRange(0, 2).Draw(t, "onlink") > 0 {
				s.Links = append(s.Links, l)
			}
		}
		if len(s.Links) == 0 {
			s.Links = []int{0}
		}
		c.Steps = append(c.Steps, s)
	}
	return c
}

type tm struct{ add, del int64 }

const lostFinding = "C13-coalesced-gossip-lost"

func runSenderCase(c SenderCase) (res vkit.Result) {
	universe := vkit.CrdtEvents()
	saved := crdt.Now
	clk := int64(1)
	crdt.Now = func() int64 { return clk }
	defer func() { crdt.Now = saved }()

	var closers []*event.State
	defer func() {
		for _, s := range closers {
			s.Close()
		}
	}()
	build := func(p QPayload) (*event.State, map[int]tm) {
		var st *event.State
		if p.Kind == "full-durable" {
			st = event.NewState(":memory:")
			closers = append(closers, st)
		} else {
			st = event.NewState("")
		}
		m := map[int]tm{}
		for _, e := range p.Entries {
			cur := m[e.Ev]
			if e.Add != 0 {
				clk = e.Add
				st.Add(universe[e.Ev])
				if e.Add > cur.add {
					cur.add = e.Add
				}
			}
			if e.Del != 0 {
				clk = e.Del
				st.Del(universe[e.Ev])
				if e.Del > cur.del {
					cur.del = e.Del
				}
			}
			m[e.Ev] = cur
		}
		return st, m
	}
	senders := make([]*vkit.GSender, c.NLinks)
	queued := make([]map[int]tm, c.NLinks) // join of everything queued per link
	sent := make([]map[int]tm, c.NLinks)   // join of everything put on the wire per link
	for i := range senders {
		senders[i], queued[i], sent[i] = vkit.NewGSender(), map[int]tm{}, map[int]tm{}
	}
	join := func(dst map[int]tm, src map[int]tm) {
		for k, v := range src {
			cur := dst[k]
			if v.add > cur.add {
				cur.add = v.add
			}
			if v.del > cur.del {
				cur.del = v.del
			}
			dst[k] = cur
		}
	}
	drain := func(l int) string {
		for {
			msgs, ok := senders[l].Pick()
			if !ok {
				return ""
			}
			for _, m := range msgs {
				st, err := event.DecodeState(m.Buf)
				if err != nil {
					return fmt.Sprintf("link %d: a payload put on the wire does not decode: %v", l, err)
				}
				got := map[int]tm{}
				for i, ev := range universe {
					var typ uint8 = event.VerifTypeConn
					switch ev.(type) {
					case *event.Subscription:
						typ = event.VerifTypeSub
					case *event.Ban:
						typ = event.VerifTypeBan
					}
					v := st.VerifSubset(typ).Get(ev.Key())
					if v.AddTime() != 0 || v.DelTime() != 0 {
						got[i] = tm{v.AddTime(), v.DelTime()}
					}
				}
				join(sent[l], got)
			}
		}
	}
	coalescedBefore := func() int {
		n := 0
		for _, s := range senders {
			n += s.Coalesced
		}
		return n
	}
	failWith := func(msg string) vkit.Result {
		r := vkit.Result{Fail: msg}
		if coalescedBefore() > 0 {
			r.Finding = lostFinding
		}
		return r
	}
	defer func() {
		if p := recover(); p != nil {
			res = failWith(fmt.Sprintf("panic while queueing/combining payloads: %v", p))
		}
	}()
	// each step builds a fresh object (a broker creates a new op state per Notify; the live state object is
	// modelled by a freshly built full state) and hands the SAME object to every listed link, as relayBroadcast does
	for _, s := range c.Steps {
		obj, model := build(c.Payloads[s.P])
		for _, l := range s.Links {
			if !c.Coalesce {
				occupied := senders[l].PendingBroadcast(mesh.PeerName(s.Src))
				if s.Send {
					occupied = senders[l].PendingGossip()
				}
				if occupied {
					if msg := drain(l); msg != "" {
						return failWith(msg)
					}
				}
			}
			if s.Send {
				senders[l].Send(obj)
			} else {
				senders[l].Broadcast(mesh.PeerName(s.Src), obj)
			}
			join(queued[l], model)
		}
	}
	for l := range senders {
		if msg := drain(l); msg != "" {
			return failWith(msg)
		}
	}
	for l := range senders {
		var ks []int
		for k := range queued[l] {
			ks = append(ks, k)
		}
		sort.Ints(ks)
		for _, k := range ks {
			q, s := queued[l][k], sent[l][k]
			if s.add < q.add || s.del < q.del {
				return failWith(fmt.Sprintf("link %d: update of event %d queued with times (add %d, del %d) but the payloads finally sent carry only (add %d, del %d); %d coalescing merges happened",
					l, k, q.add, q.del, s.add, s.del, coalescedBefore()))
			}
		}
	}
	n := coalescedBefore()
	labels := []string{"coalescing-merges-0"}
	if n > 0 {
		labels = []string{"coalescing-merges>=1"}
	}
	if len(c.Steps) > 0 && len(c.Steps[0].Links) > 1 {
		labels = append(labels, "one-object-on-several-links")
	}
	return vkit.Result{NonTrivial: len(c.Steps) >= 2, Labels: labels}
}

func TestSenderQueue(t *testing.T) { vkit.Check(t, genSenderCase, runSenderCase) }

// TestProbeCoalescedLost replays the minimal reproduction of the listed finding: two single-operation payloads
// queued on one link before a pick; the first one never reaches the wire.
func TestProbeCoalescedLost(t *testing.T) {
	c := SenderCase{NLinks: 1, Coalesce: true,
		Payloads: []QPayload{{Kind: "op", Entries: []Entry{{Ev: 0, Add: 1}}}, {Kind: "op", Entries: []Entry{{Ev: 1, Add: 2}}}},
		Steps:    []QStep{{P: 0, Src: 1, Links: []int{0}}, {P: 1, Src: 1, Links: []int{0}}}}
	r := runSenderCase(c)
	vkit.Probe(lostFinding, r.Fail != "" && r.Finding == lostFinding, r.Fail)
	if r.Fail != "" && r.Finding != lostFinding {
		vkit.ReportFailure(t.Name(), c, r.Fail, "")
		t.Fatal(r.Fail)
	}
}

// TestDeltaUnderConcurrency: merges arriving over several links at once, racing local operations (vkit/crdtrace.go).
func TestDeltaUnderConcurrency(t *testing.T) { vkit.Check(t, vkit.GenCrdtRace, vkit.RunCrdtRaceDelta) }

// TestLargePayload: a gossip payload far above the everyday size (150 000 subscriptions: a few MB on the wire, more
// than 15 MB decoded - still one mesh frame of at most 10 MiB) is merged completely: every entry is new, so every entry is in the delta
// and in the receiver afterwards.
func TestLargePayload(t *testing.T) {
	const n = 150000
	src := event.NewState("")
	for i := 0; i < n; i++ {
		src.Add(&event.Subscription{Peer: 7, Conn: security.ID(i + 1), Ssid: message.Ssid{1, uint32(i % 1000), uint32(i)}, Channel: []byte(fmt.Sprintf("a-long-enough-channel-name/big/%d/%d/", i%1000, i))})
	}
	enc := src.Encode()[0]
	for _, durable := range []bool{false, true} {
		decodedLen, _ := snappy.DecodedLen(enc)
		c := map[string]interface{}{"subscriptions": n, "encoded-bytes": len(enc), "decoded-bytes": decodedLen, "durable-receiver": durable}
		if len(enc) >= 10<<20 {
			t.Fatalf("harness: the payload (%d bytes) does not fit one frame", len(enc))
		}
		fail := func(msg string) {
			vkit.ReportFailure(t.Name(), c, msg, "")
			t.Fatal(msg)
		}
		in, err := event.DecodeState(enc)
		if err != nil {
			fail(fmt.Sprintf("a payload of %d subscriptions (%d bytes encoded, within one transport frame) does not decode: %v - none of its updates is merged or relayed", n, len(enc), err))
		}
		dst := event.NewState("")
		if durable {
			dst = event.NewState(":memory:")
		}
		delta := dst.Merge(in)
		if delta == nil {
			fail("merging a payload of new entries returned no delta")
		}
		got, inDelta := 0, 0
		dst.Subscriptions(func(*event.Subscription, event.Value) { got++ })
		delta.(*event.State).Subscriptions(func(*event.Subscription, event.Value) { inDelta++ })
		if got != n || inDelta != n {
			fail(fmt.Sprintf("payload of %d new subscriptions: the receiver holds %d afterwards, the delta handed on carries %d", n, got, inDelta))
		}
		if dst.Merge(mustDecode(enc)) != nil {
			fail("merging the same large payload again returns a non-empty delta")
		}
		dst.Close()
		vkit.Record(t.Name(), c, vkit.OK(true, "large-payload"))
	}
}

func mustDecode(b []byte) *event.State {
	st, err := event.DecodeState(b)
	if err != nil {
		panic(err)
	}
	return st
}
