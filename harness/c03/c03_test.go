//go:build verif

// C03 — Channel keys authorize exactly what they were issued for.
package c03

import (
	"encoding/json"
	"fmt"
	"math/rand"
	"net/http"
	"net/http/httptest"
	"runtime"
	"sort"
	"strings"
	"sync"
	"testing"
	"time"

	"github.com/eclipse/paho.mqtt.golang/packets"
	"github.com/emitter-io/emitter/internal/event"
	"github.com/emitter-io/emitter/internal/event/crdt"
	"github.com/emitter-io/emitter/internal/provider/contract"
	"github.com/emitter-io/emitter/internal/provider/usage"
	"github.com/emitter-io/emitter/internal/security"
	"github.com/emitter-io/emitter/internal/security/license"
	"github.com/emitter-io/emitter/internal/verif/vkit"
	"pgregory.net/rapid"
)

func TestMain(m *testing.M) { vkit.Main(m) }

// covers is the reference target/request relation, written from the statement:
// equal levels where the target has literals, any level where it has '+', the same depth for exact targets and
// at least that depth for '#/' targets, wildcard levels in the request accepted only where the target is itself
// wildcard or beyond its depth. A trailing '#' of the request stands for "anything below".
// unspecified: a request ending in '#' against an exact target (the statement can be read either way).
func covers(target, request string) (allowed, unspecified bool) {
	tl := vkit.Levels(target)
	multi := len(tl) > 0 && tl[len(tl)-1] == "#"
	if multi {
		tl = tl[:len(tl)-1]
	}
	rl := vkit.Levels(request)
	rmulti := len(rl) > 0 && rl[len(rl)-1] == "#"
	if rmulti {
		rl = rl[:len(rl)-1]
	}
	if rmulti && !multi {
		return false, true
	}
	if multi && len(rl) < len(tl) || !multi && len(rl) != len(tl) {
		return false, false
	}
	for i := range tl {
		if tl[i] != "+" && tl[i] != rl[i] {
			return false, false
		}
	}
	return true, false
}

const plusFinding = "C03-trailing-plus-target"

// trailingPlus is the matcher of the listed finding: the target's last level (before an optional '#') is '+'
// and the target has a literal level or ends in '#/'.
func trailingPlus(target string) bool {
	tl := vkit.Levels(target)
	multi := len(tl) > 0 && tl[len(tl)-1] == "#"
	if multi {
		tl = tl[:len(tl)-1]
	}
	if len(tl) == 0 || tl[len(tl)-1] != "+" {
		return false
	}
	lit := false
	for _, l := range tl {
		if l != "+" {
			lit = true
		}
	}
	return lit || multi
}

func enumerate(alpha []string, maxDepth int, withHash bool) []string {
	var out []string
	var rec func(prefix []string)
	rec = func(prefix []string) {
		if len(prefix) > 0 {
			out = append(out, strings.Join(prefix, "/")+"/")
			if withHash {
				out = append(out, strings.Join(prefix, "/")+"/#/")
			}
		}
		if len(prefix) == maxDepth {
			return
		}
		for _, a := range alpha {
			rec(append(append([]string{}, prefix...), a))
		}
	}
	rec(nil)
	return out
}

// Pair is one (target, request) cell of the matrix.
type Pair struct {
	Target  string `json:"target"`
	Request string `json:"request"`
}

// TestCoversMatrix enumerates the target x request matrix completely at Key.ValidateChannel level.
func TestCoversMatrix(t *testing.T) {
	tdepth, talpha := 3, []string{"a", "b", "+"}
	if vkit.Tier() == "thorough" {
		tdepth, talpha = 4, []string{"a", "b", "c", "+"}
	}
	targets := append(enumerate(talpha, tdepth, true), "#/")
	requests := enumerate([]string{"a", "b", "c", "+"}, 4, true)
	findingCells, unspecifiedCells := 0, 0
	for _, target := range targets {
		k := security.Key(make([]byte, 24))
		if err := k.SetTarget(target); err != nil {
			t.Fatalf("SetTarget(%s): %v", target, err)
		}
		for _, req := range requests {
			ch := security.ParseChannel([]byte("k/" + req))
			if ch.ChannelType == security.ChannelInvalid {
				t.Fatalf("harness: request %q does not parse", req)
			}
			got := k.ValidateChannel(ch)
			want, unspec := covers(target, req)
			p := Pair{target, req}
			switch {
			case unspec:
				unspecifiedCells++
				vkit.Record(t.Name(), p, vkit.Result{Excluded: true, Labels: []string{"unspecified:#-request-vs-exact-target"}})
			case got == want:
				vkit.Record(t.Name(), p, vkit.Result{NonTrivial: want || sameDepthOneLevelOff(target, req), Labels: []string{fmt.Sprintf("allowed-%v", want)}})
			case !got && want && trailingPlus(target) && vkit.Known(plusFinding):
				findingCells++
				vkit.Record(t.Name(), p, vkit.Result{Excluded: true, Labels: []string{"finding:" + plusFinding}})
			default:
				kind := "over-permission"
				if want {
					kind = "under-permission"
				}
				vkit.ReportFailure(t.Name(), p, fmt.Sprintf("%s: key with target %q on channel %q: ValidateChannel=%v, the target covers it: %v", kind, target, req, got, want), "")
				t.Fatalf("%s target %q request %q got %v want %v", kind, target, req, got, want)
			}
		}
	}
	vkit.Label("matrix-targets", int64(len(targets)))
	vkit.Label("matrix-requests", int64(len(requests)))
	vkit.Note("matrix", fmt.Sprintf("enumerated completely: %d targets x %d requests; %d cells in the listed trailing-'+' finding region (under-permission only), %d cells unspecified", len(targets), len(requests), findingCells, unspecifiedCells))
	// probe of the listed finding: minimal reproduction
	k := security.Key(make([]byte, 24))
	k.SetTarget("a/+/")
	rep := !k.ValidateChannel(security.ParseChannel([]byte("k/a/b/")))
	vkit.Probe(plusFinding, rep, "key with target a/+/ presented for channel a/b/ is refused")
}

// sameDepthOneLevelOff marks refusals that are decided by exactly one level or by depth only (near misses).
func sameDepthOneLevelOff(target, req string) bool {
	tl, rl := vkit.Levels(strings.TrimSuffix(target, "#/")), vkit.Levels(strings.TrimSuffix(req, "#/"))
	if len(tl) != len(rl) {
		return len(tl)-len(rl) == 1 || len(rl)-len(tl) == 1
	}
	off := 0
	for i := range tl {
		if tl[i] != "+" && tl[i] != rl[i] {
			off++
		}
	}
	return off == 1
}

// DeepCase: targets and requests around the maximum target depth (23 levels), where the matrix does not reach.
type DeepCase struct {
	Target  []string `json:"target"`
	Multi   bool     `json:"multi"`
	Request []string `json:"request"`
	RMulti  bool     `json:"rmulti"`
}

func genDeep(t *rapid.T) DeepCase {
	c := DeepCase{Multi: rapid.Bool().Draw(t, "multi"), RMulti: rapid.IntRange(0, 3).Draw(t, "rmulti") == 0}
	td := rapid.SampledFrom([]int{1, 2, 5, 20, 21, 22, 23, 23, 23}).Draw(t, "tdepth")
	for i := 0; i < td; i++ {
		c.Target = append(c.Target, rapid.SampledFrom([]string{"a", "a", "b", "+"}).Draw(t, "tl"))
	}
	rd := td + rapid.SampledFrom([]int{-2, -1, 0, 0, 0, 1, 2, 3, 5}).Draw(t, "delta")
	if rd < 1 {
		rd = 1
	}
	// start from a request the target covers, then perturb at most one level
	for i := 0; i < rd; i++ {
		l := "a"
		if i < td && c.Target[i] != "+" {
			l = c.Target[i]
		} else if rapid.Bool().Draw(t, "alt") {
			l = "b"
		}
		c.Request = append(c.Request, l)
	}
	if rapid.IntRange(0, 2).Draw(t, "perturb") == 0 {
		c.Request[rapid.IntRange(0, rd-1).Draw(t, "pos")] = rapid.SampledFrom([]string{"a", "b", "c", "+"}).Draw(t, "pl")
	}
	return c
}

func runDeep(c DeepCase) vkit.Result {
	target := strings.Join(c.Target, "/") + "/"
	if c.Multi {
		target += "#/"
	}
	req := strings.Join(c.Request, "/") + "/"
	if c.RMulti {
		req += "#/"
	}
	k := security.Key(make([]byte, 24))
	if err := k.SetTarget(target); err != nil {
		return vkit.Failf("SetTarget(%q) with %d levels: %v", target, len(c.Target), err)
	}
	ch := security.ParseChannel([]byte("k/" + req))
	if ch.ChannelType == security.ChannelInvalid {
		panic("harness: " + req)
	}
	got := k.ValidateChannel(ch)
	want, unspec := covers(target, req)
	if unspec {
		return vkit.Result{Excluded: true, Labels: []string{"unspecified:#-request-vs-exact-target"}}
	}
	if got != want {
		kind := "over-permission"
		if want {
			kind = "under-permission"
		}
		r := vkit.Failf("%s: target %q (%d levels) on channel %q (%d levels): ValidateChannel=%v, covers=%v", kind, target, len(c.Target), req, len(c.Request), got, want)
		if want && trailingPlus(target) {
			r.Finding = plusFinding
		}
		return r
	}
	return vkit.OK(len(c.Target) >= 20, fmt.Sprintf("deep-allowed-%v", want))
}

func TestCoversDeep(t *testing.T) { vkit.Check(t, genDeep, runDeep) }

// ---------------------------------------------------------------------------------------------

// AuthCase is one authorization decision with every conjunct drawn independently.
type AuthCase struct {
	Lic      int    `json:"lic"`      // license version 1..3
	Contract string `json:"contract"` // own, other (known second contract), unknown, http-allowed / http-refused / http-nostate (HTTP contract provider)
	SigOK    bool   `json:"sigok"`
	MasterOK bool   `json:"masterok"`
	Perm     uint8  `json:"perm"`
	Need     uint8  `json:"need"`
	Expiry   string `json:"expiry"` // none, past, future
	Target   string `json:"target"`
	Request  string `json:"request"`
	Ban      string `json:"ban"`     // no, banned, unbanned (banned then unbanned)
	Garbage  int    `json:"garbage"` // 0 real key, 1/4 one character changed to one outside the alphabet, 2 wrong length, 3 standard-base64 respelling, 5-7 padded with white space
	Salt     uint16 `json:"salt"`
	Disturb  int    `json:"disturb,omitempty"` // between two identical decisions: 1 the key is used for a link extension, 2 a strong unrelated key is authorized, 3 both
}

var authTargets = []string{"a/", "a/b/", "a/#/", "+/b/", "#/", "a/b/#/", "+/", "a/b/c/", "+/+/"}
var authRequests = []string{"a/", "a/b/", "a/c/", "b/", "x/b/", "a/b/c/", "a/+/", "+/b/", "a/b/c/d/", "a/#/"}
var needs = []uint8{security.AllowRead, security.AllowWrite, security.AllowStore, security.AllowLoad, security.AllowPresence, security.AllowExtend}

func genAuth(t *rapid.T) AuthCase {
	c := AuthCase{Lic: rapid.IntRange(1, 3).Draw(t, "lic"), SigOK: true, MasterOK: true, Contract: "own", Expiry: "none", Ban: "no",
		Target: rapid.SampledFrom(authTargets).Draw(t, "target"), Salt: uint16(rapid.IntRange(0, 65535).Draw(t, "salt"))}
	c.Need = rapid.SampledFrom(needs).Draw(t, "need")
	// start from an all-satisfied tuple, then break zero, one or two conjuncts: every conjunct is seen deciding
	c.Perm = c.Need | uint8(rapid.IntRange(0, 255).Draw(t, "extra"))&^security.AllowMaster
	good := []string{}
	for _, r := range authRequests {
		if ok, unspec := covers(c.Target, r); ok && !unspec {
			good = append(good, r)
		}
	}
	c.Request = rapid.SampledFrom(good).Draw(t, "request")
	for i, n := 0, rapid.SampledFrom([]int{0, 1, 1, 1, 2}).Draw(t, "nbreak"); i < n; i++ {
		switch rapid.IntRange(0, 8).Draw(t, "break") {
		case 0:
			c.Contract = rapid.SampledFrom([]string{"other", "unknown", "http-refused", "http-nostate", "http-allowed", "http-flaky"}).Draw(t, "contract")
		case 1:
			c.SigOK = false
		case 2:
			c.MasterOK = false
		case 3:
			c.Perm &^= c.Need
		case 4:
			c.Expiry = "past"
		case 5:
			c.Request = rapid.SampledFrom(authRequests).Draw(t, "anyrequest")
		case 6:
			c.Ban = "banned"
		case 7:
			c.Garbage = rapid.IntRange(1, 7).Draw(t, "garbage")
		case 8:
			c.Expiry, c.Ban = "future", rapid.SampledFrom([]string{"no", "unbanned"}).Draw(t, "ban") // benign variations
		}
	}
	c.Disturb = rapid.SampledFrom([]int{0, 1, 1, 2, 3}).Draw(t, "disturb")
	return c
}

var badBytes = []byte("+=.~*$!@ ,;:")

type multi struct{ ps []contract.Provider }

func (m *multi) Name() string                                  { return "multi" }
func (m *multi) Configure(config map[string]interface{}) error { return nil }
func (m *multi) Create() (contract.Contract, error)            { return nil, nil }
func (m *multi) Get(id uint32) (contract.Contract, bool) {
	for _, p := range m.ps {
		if c, ok := p.Get(id); ok {
			return c, true
		}
	}
	return nil, false
}

type env struct {
	b      *vkit.Broker
	other  license.License            // second, known contract (same cipher)
	unk    license.License            // contract nobody knows
	http   map[string]license.License // contracts served by the HTTP contract provider, by state
	banned map[string]bool
}

// contractServer answers the HTTP contract provider: /<id> -> {"id":..,"master":1,"sign":..,"state":..}
func contractServer(byID map[uint32]string) *httptest.Server {
	return httptest.NewServer(http.HandlerFunc(func(w http.ResponseWriter, r *http.Request) {
		var id uint32
		fmt.Sscanf(strings.TrimPrefix(r.URL.Path, "/"), "%d", &id)
		if body, ok := byID[id]; ok {
			w.Header().Set("Content-Type", "application/json")
			w.Write([]byte(body))
			return
		}
		flakyMu.Lock()
		body, ok := flaky[id]
		n := flakySeen[id]
		flakySeen[id]++
		flakyMu.Unlock()
		if ok && n == 0 { // the first lookup of this contract hits a provider that is failing right now
			w.WriteHeader(500)
			w.Write([]byte("temporarily unavailable"))
			return
		}
		if ok {
			w.Header().Set("Content-Type", "application/json")
			w.Write([]byte(body))
			return
		}
		w.WriteHeader(404)
	}))
}

var envs = map[int]*env{}
var clock int64

// contracts whose first lookup fails (transient provider failure) and that are allowed from the second lookup on
var (
	flakyMu   sync.Mutex
	flaky     = map[uint32]string{}
	flakySeen = map[uint32]int{}
	flakyNo   uint32
)

// second builds a license that shares the broker's encryption key but is another contract.
func second(l license.License, du, ds uint32) license.License {
	switch x := l.(type) {
	case *license.V1:
		return &license.V1{EncryptionKey: x.EncryptionKey, User: x.User + du, Sign: x.Sign + ds, Expires: x.Expires, Type: x.Type}
	case *license.V2:
		return &license.V2{EncryptionKey: x.EncryptionKey, EncryptionSalt: x.EncryptionSalt, User: x.User + du, Sign: x.Sign + ds, Index: x.Index}
	case *license.V3:
		return &license.V3{EncryptionKey: x.EncryptionKey, EncryptionSalt: x.EncryptionSalt, User: x.User + du, Sign: x.Sign + ds, Index: x.Index}
	}
	panic("license type")
}

func getEnv(v int) *env {
	if e, ok := envs[v]; ok {
		return e
	}
	if clock == 0 {
		clock = time.Now().UnixNano()
		crdt.Now = func() int64 { clock++; return clock }
	}
	b, err := vkit.NewBroker(vkit.BrokerOpts{LicVersion: v, Node: fmt.Sprintf("00:00:00:00:00:0%d", v)})
	if err != nil {
		panic(err)
	}
	e := &env{b: b, other: second(b.Lic, 1, 7), unk: second(b.Lic, 2, 9), banned: map[string]bool{}, http: map[string]license.License{}}
	byID := map[uint32]string{}
	for i, st := range []struct {
		name, state string
	}{{"http-allowed", `,"state":1`}, {"http-refused", `,"state":2`}, {"http-nostate", ``}} {
		l := second(b.Lic, uint32(10+i), uint32(20+i))
		e.http[st.name] = l
		byID[l.Contract()] = fmt.Sprintf(`{"id":%d,"master":%d,"sign":%d%s}`, l.Contract(), l.Master(), l.Signature(), st.state)
	}
	hp := contract.NewHTTPContractProvider(b.Lic, usage.NewNoop())
	if err := hp.Configure(map[string]interface{}{"url": contractServer(byID).URL + "/", "interval": float64(3600000)}); err != nil {
		panic(err)
	}
	b.S.VerifSetContracts(&multi{ps: []contract.Provider{contract.NewSingleContractProvider(b.Lic, usage.NewNoop()), contract.NewSingleContractProvider(e.other, usage.NewNoop()), hp}})
	envs[v] = e
	return e
}

func runAuth(c AuthCase) vkit.Result {
	e := getEnv(c.Lic)
	lic := e.b.Lic
	switch c.Contract {
	case "other":
		lic = e.other
	case "unknown":
		lic = e.unk
	case "http-allowed", "http-refused", "http-nostate":
		lic = e.http[c.Contract]
	case "http-flaky":
		flakyMu.Lock()
		flakyNo++
		lic = second(e.b.Lic, 1000+flakyNo, 77)
		flaky[lic.Contract()] = fmt.Sprintf(`{"id":%d,"master":%d,"sign":%d,"state":1}`, lic.Contract(), lic.Master(), lic.Signature())
		flakyMu.Unlock()
	}
	k := security.Key(make([]byte, 24))
	k.SetSalt(c.Salt)
	k.SetMaster(uint16(lic.Master()))
	if !c.MasterOK {
		k.SetMaster(uint16(lic.Master()) + 1)
	}
	k.SetContract(lic.Contract())
	k.SetSignature(lic.Signature())
	if !c.SigOK {
		k.SetSignature(lic.Signature() ^ 1)
	}
	k.SetPermissions(c.Perm)
	if err := k.SetTarget(c.Target); err != nil {
		panic(err)
	}
	switch c.Expiry {
	case "past":
		k.SetExpires(time.Now().Add(-time.Hour))
	case "future":
		k.SetExpires(time.Now().Add(time.Hour))
	}
	enc := e.b.Encrypt(k)
	switch c.Garbage {
	case 1:
		enc = enc[:7] + "*" + enc[8:]
	case 2:
		enc = enc[:31]
	case 3: // the same key spelled in the standard base64 alphabet: not a valid key string
		if re := strings.ReplaceAll(enc, "-", "+"); re != enc {
			enc = re
		} else {
			enc = enc[:7] + "+" + enc[8:]
		}
	case 5, 6, 7: // the key padded with white space (a pasted key): not a key string, whatever it would decrypt to after trimming
		enc = []string{enc + " ", "\t" + enc, enc + "\n"}[c.Garbage-5]
	case 4: // one character replaced by a byte outside the URL-safe alphabet
		enc = enc[:int(c.Salt)%32] + string([]byte{badBytes[int(c.Salt/32)%len(badBytes)]}) + enc[int(c.Salt)%32+1:]
	}
	ban := event.Ban(enc)
	switch c.Ban {
	case "banned":
		e.b.S.VerifSwarm().Notify(&ban, true)
		e.banned[enc] = true
	case "unbanned":
		e.b.S.VerifSwarm().Notify(&ban, true)
		e.b.S.VerifSwarm().Notify(&ban, false)
		e.banned[enc] = false
	}
	ch := security.ParseChannel([]byte(enc + "/" + c.Request))
	if ch.ChannelType == security.ChannelInvalid && c.Garbage == 0 {
		panic("harness: request does not parse: " + c.Request)
	}
	_, _, got := e.b.S.Authorize(ch, c.Need)
	if c.Contract == "http-flaky" { // the decision made while the provider was failing is not asserted; the next one is
		_, _, got = e.b.S.Authorize(ch, c.Need)
	}
	cov, unspec := covers(c.Target, c.Request)
	if unspec {
		return vkit.Result{Excluded: true, Labels: []string{"unspecified:#-request-vs-exact-target"}}
	}
	conj := map[string]bool{
		"decrypts": c.Garbage == 0, "not-expired": c.Expiry != "past", "not-banned": !e.banned[enc], "contract-allowed": c.Contract != "unknown" && c.Contract != "http-refused" && c.Contract != "http-nostate", // http-flaky: allowed once the provider answers
		"signature": c.SigOK, "master": c.MasterOK, "permission": c.Perm&c.Need == c.Need, "covers": cov,
	}
	want := true
	var failing []string
	for name, ok := range conj {
		if !ok {
			want = false
			failing = append(failing, name)
		}
	}
	sort.Strings(failing)
	if got != want {
		r := vkit.Failf("Authorize(%+v) = %v, expected %v (failing conjuncts: %v)", c, got, want, failing)
		if !got && want && trailingPlus(c.Target) {
			r.Finding = plusFinding
		}
		return r
	}
	labels := []string{fmt.Sprintf("license-v%d", c.Lic)}
	if want {
		labels = append(labels, "allowed")
	}
	// the decision is a function of the key, the request and the ban state only: whatever else the broker served in
	// between - an extension of this very key, another client's powerful key - the same question gets the same answer
	if c.Disturb != 0 {
		if c.Disturb&1 != 0 {
			if _, err := e.b.S.VerifKeygen().ExtendKey(enc, strings.TrimSuffix(strings.TrimSuffix(c.Request, "#/"), "+/"), "CONNID7", 0xff, time.Unix(0, 0)); err == nil {
				labels = append(labels, "disturb:key-was-extended")
			}
		}
		if c.Disturb&2 != 0 {
			strong := e.b.Key("#/", 0x7e)
			if _, _, ok := e.b.S.Authorize(security.ParseChannel([]byte(strong+"/"+"zz/top/")), security.AllowWrite); !ok {
				return vkit.Failf("a key for #/ with every permission is refused on zz/top/")
			}
		}
		if _, _, again := e.b.S.Authorize(ch, c.Need); again != want {
			return vkit.Failf("Authorize(%+v) = %v when asked again after other requests were served (disturbance %d), expected %v as before (failing conjuncts: %v)", c, again, c.Disturb, want, failing)
		}
	}
	if len(failing) == 1 {
		labels = append(labels, "decided-by:"+failing[0])
	}
	return vkit.Result{NonTrivial: len(failing) == 1 || want, Labels: labels}
}

func TestAuthorize(t *testing.T) { vkit.Check(t, genAuth, runAuth) }

// ---------------------------------------------------------------------------------------------

// TestEntryPoints: the same decision observed at each operation's entry point through a connection, for every
// permission mask: subscribe needs read, publish write, history load, presence presence, link extension extend;
// and a key of one contract never reaches another contract's subscribers.
func TestEntryPoints(t *testing.T) {
	for v := 1; v <= 3; v++ {
		e := getEnv(v)
		cl := e.b.Attach(fmt.Sprintf("ep%d", v))
		if err := cl.Connect("ep", "", nil); err != nil {
			t.Fatal(err)
		}
		for mask := 0; mask < 128; mask++ {
			p := uint8(mask<<1) &^ security.AllowExecute
			enc := e.b.Encrypt(e.b.RawKey("a/", p, time.Unix(0, 0), uint16(mask)))
			ext := p&security.AllowExtend != 0
			type res struct {
				refused bool
				why     string
			}
			ops := map[string]res{}
			// subscribe
			codes, pubs, err := cl.Subscribe(1, enc+"/a/?last=0")
			if err != nil {
				t.Fatalf("subscribe: %v", err)
			}
			ops["subscribe"] = res{refused: codes[0] == 0x80}
			if codes[0] != 0x80 {
				if _, err := cl.Unsubscribe(2, enc+"/a/"); err != nil {
					t.Fatal(err)
				}
			}
			// publish
			pubs, err = cl.Publish(3, enc+"/a/", []byte("x"), false)
			if err != nil {
				t.Fatal(err)
			}
			ops["publish"] = res{refused: hasError(pubs)}
			// history
			pubs, err = cl.Request(4, "history", map[string]string{"channel": enc + "/a/"})
			if err != nil {
				t.Fatal(err)
			}
			ops["history"] = res{refused: hasError(pubs)}
			// presence
			pubs, err = cl.Request(5, "presence", map[string]interface{}{"key": enc, "channel": "a/", "status": true})
			if err != nil {
				t.Fatal(err)
			}
			ops["presence"] = res{refused: hasError(pubs)}
			// extension through keygen
			pubs, err = cl.Request(6, "keygen", map[string]interface{}{"key": enc, "channel": "a/", "type": "rw", "ttl": 0})
			if err != nil {
				t.Fatal(err)
			}
			ops["extend"] = res{refused: hasError(pubs)}
			want := map[string]bool{ // allowed?
				"subscribe": p&security.AllowRead != 0 && !ext, "publish": p&security.AllowWrite != 0 && !ext,
				"history": p&security.AllowLoad != 0, "presence": p&security.AllowPresence != 0 && !ext, "extend": ext,
			}
			c := map[string]interface{}{"license": v, "perm": p}
			for op, w := range want {
				if ops[op].refused == w {
					vkit.ReportFailure(t.Name(), c, fmt.Sprintf("license v%d key with permissions %08b: operation %q refused=%v, expected allowed=%v", v, p, op, ops[op].refused, w), "")
					t.Fatalf("perm %08b op %s refused=%v want allowed=%v", p, op, ops[op].refused, w)
				}
			}
			vkit.Record(t.Name(), c, vkit.OK(true, "entry-points-mask"))
		}
		// contract isolation: a subscriber of the own contract never receives what a key of the other contract publishes
		own := e.b.Key("#/", security.AllowReadWrite)
		ok2 := security.Key(make([]byte, 24))
		ok2.SetSalt(5)
		ok2.SetMaster(uint16(e.other.Master()))
		ok2.SetContract(e.other.Contract())
		ok2.SetSignature(e.other.Signature())
		ok2.SetPermissions(security.AllowReadWrite)
		ok2.SetTarget("#/")
		otherKey := e.b.Encrypt(ok2)
		cl2 := e.b.Attach("iso")
		cl2.Connect("iso", "", nil)
		if codes, _, err := cl.Subscribe(9, own+"/iso/"); err != nil || codes[0] == 0x80 {
			t.Fatalf("subscribe own: %v %v", codes, err)
		}
		if codes, _, err := cl2.Subscribe(9, otherKey+"/iso/"); err != nil || codes[0] == 0x80 {
			t.Fatalf("subscribe other contract: %v %v", codes, err)
		}
		pubs, err := cl2.Publish(10, otherKey+"/iso/", []byte("from-other-contract"), false)
		if err != nil || len(pubs) != 1 {
			t.Fatalf("publisher of the other contract received %d copies of its own message (%v)", len(pubs), err)
		}
		leaked, err := cl.Barrier()
		if err != nil {
			t.Fatal(err)
		}
		c := map[string]interface{}{"license": v, "isolation": true}
		if len(leaked) != 0 {
			vkit.ReportFailure(t.Name(), c, fmt.Sprintf("a message published with a key of contract %d reached a subscriber of contract %d", e.other.Contract(), e.b.Lic.Contract()), "")
			t.Fatalf("contract leak")
		}
		vkit.Record(t.Name(), c, vkit.OK(true, "contract-isolation"))
		cl.Close()
		cl2.Close()
	}
}

// hasError: a reply whose JSON payload carries a status >= 400 (error replies and refused emitter/... requests).
func hasError(pubs []*packets.PublishPacket) bool {
	for _, p := range pubs {
		var r struct {
			Status int `json:"status"`
		}
		if json.Unmarshal(p.Payload, &r) == nil && r.Status >= 400 {
			return true
		}
	}
	return false
}

// ---------------------------------------------------------------------------------------------

// TestAuthorizeConcurrent: many connections are authorized at the same time (the broker shares one cipher, one
// contract provider and one ban state between all of them). Every goroutine asks about its own keys - valid ones,
// keys of other contracts, keys with a wrong signature, expired ones, damaged spellings - and must get, every time,
// the answer of the reference predicate, whatever the other goroutines present at that moment.
func TestAuthorizeConcurrent(t *testing.T) {
	rounds := vkit.N(6)
	for round := 0; round < rounds; round++ {
		v := 1 + round%3
		e := getEnv(v)
		type q struct {
			c    AuthCase
			enc  string
			ch   *security.Channel
			want bool
		}
		const G = 8
		qs := make([][]q, G)
		rng := rand.New(rand.NewSource(vkit.Seed() + int64(round)))
		for g := 0; g < G; g++ {
			for i := 0; i < 12; i++ {
				c := AuthCase{Lic: v, SigOK: rng.Intn(5) != 0, MasterOK: rng.Intn(7) != 0, Contract: []string{"own", "own", "own", "other", "unknown", "http-allowed", "http-refused"}[rng.Intn(7)],
					Expiry: []string{"none", "none", "future", "past"}[rng.Intn(4)], Target: authTargets[rng.Intn(len(authTargets))], Request: authRequests[rng.Intn(len(authRequests))],
					Need: needs[rng.Intn(len(needs))], Perm: uint8(rng.Intn(128) << 1), Salt: uint16(rng.Intn(65536)), Ban: "no"}
				if rng.Intn(8) == 0 {
					c.Garbage = 1 + rng.Intn(4)
				}
				if trailingPlus(c.Target) {
					c.Target = "a/#/"
				}
				cov, unspec := covers(c.Target, c.Request)
				if unspec {
					c.Request = "a/"
					cov, _ = covers(c.Target, c.Request)
				}
				lic := e.b.Lic
				switch c.Contract {
				case "other":
					lic = e.other
				case "unknown":
					lic = e.unk
				case "http-allowed", "http-refused":
					lic = e.http[c.Contract]
				}
				k := security.Key(make([]byte, 24))
				k.SetSalt(c.Salt)
				k.SetMaster(uint16(lic.Master()))
				if !c.MasterOK {
					k.SetMaster(uint16(lic.Master()) + 1)
				}
				k.SetContract(lic.Contract())
				k.SetSignature(lic.Signature())
				if !c.SigOK {
					k.SetSignature(lic.Signature() ^ 1)
				}
				k.SetPermissions(c.Perm)
				k.SetTarget(c.Target)
				switch c.Expiry {
				case "past":
					k.SetExpires(time.Now().Add(-time.Hour))
				case "future":
					k.SetExpires(time.Now().Add(time.Hour))
				}
				enc := e.b.Encrypt(k)
				if c.Garbage != 0 {
					enc = enc[:int(c.Salt)%32] + string([]byte{badBytes[int(c.Salt/32)%len(badBytes)]}) + enc[int(c.Salt)%32+1:]
				}
				if e.banned[enc] {
					continue
				}
				want := c.Garbage == 0 && c.Expiry != "past" && c.Contract != "unknown" && c.Contract != "http-refused" && c.SigOK && c.MasterOK && c.Perm&c.Need == c.Need && cov
				qs[g] = append(qs[g], q{c, enc, security.ParseChannel([]byte(enc + "/" + c.Request)), want})
			}
		}
		var wg sync.WaitGroup
		errs := make(chan string, G)
		for g := 0; g < G; g++ {
			wg.Add(1)
			go func(g int) {
				defer wg.Done()
				for it := 0; it < 20000; it++ {
					x := qs[g][it%len(qs[g])]
					if _, _, got := e.b.S.Authorize(x.ch, x.c.Need); got != x.want {
						errs <- fmt.Sprintf("with %d goroutines authorizing at once: Authorize(%+v) = %v, expected %v", G, x.c, got, x.want)
						return
					}
					if it%16 == 0 {
						runtime.Gosched()
					}
				}
			}(g)
		}
		wg.Wait()
		select {
		case m := <-errs:
			vkit.ReportFailure(t.Name(), map[string]int{"round": round, "license": v}, m, "")
			t.Fatal(m)
		default:
		}
		vkit.Record(t.Name(), map[string]int{"round": round, "license": v, "goroutines": G}, vkit.OK(true, "authorize-concurrent"))
	}
}

// ---------------------------------------------------------------------------------------------

// TestContractRefresh: contracts served by the HTTP contract provider change at the provider - most are refused from
// now on, one disappears (or the provider fails for it), one stays allowed. After refresh rounds have run, keys of the
// refused contracts must not be accepted any more and the allowed one still is.
func TestContractRefresh(t *testing.T) {
	rounds := vkit.N(3)
	for round := 0; round < rounds; round++ {
		const N = 24
		var mu sync.Mutex
		state := map[uint32]string{} // id -> "allowed" | "refused" | "gone" | "error"
		hits := map[uint32]int{}
		lics := make([]license.License, N)
		base := vkit.DetLicense(1, "c03-refresh")
		for i := range lics {
			lics[i] = second(base, uint32(5000+round*100+i), uint32(i+1))
			state[lics[i].Contract()] = "allowed"
		}
		srv := httptest.NewServer(http.HandlerFunc(func(w http.ResponseWriter, r *http.Request) {
			var id uint32
			fmt.Sscanf(strings.TrimPrefix(r.URL.Path, "/"), "%d", &id)
			mu.Lock()
			st := state[id]
			hits[id]++
			mu.Unlock()
			var l license.License
			for _, x := range lics {
				if x.Contract() == id {
					l = x
				}
			}
			switch {
			case l == nil || st == "gone":
				w.Header().Set("Content-Type", "application/json")
				w.Write([]byte(`{}`))
			case st == "error":
				w.WriteHeader(500)
			default:
				code := 1
				if st == "refused" {
					code = 2
				}
				w.Header().Set("Content-Type", "application/json")
				fmt.Fprintf(w, `{"id":%d,"master":%d,"sign":%d,"state":%d}`, id, l.Master(), l.Signature(), code)
			}
		}))
		hp := contract.NewHTTPContractProvider(base, usage.NewNoop())
		if err := hp.Configure(map[string]interface{}{"url": srv.URL + "/", "interval": float64(40)}); err != nil {
			t.Fatal(err)
		}
		keyOf := func(l license.License) security.Key {
			k := security.Key(make([]byte, 24))
			k.SetMaster(uint16(l.Master()))
			k.SetContract(l.Contract())
			k.SetSignature(l.Signature())
			k.SetPermissions(security.AllowRead)
			return k
		}
		accepted := func(l license.License) bool {
			c, ok := hp.Get(l.Contract())
			return ok && c.Validate(keyOf(l))
		}
		c := map[string]int{"round": round, "contracts": N}
		fail := func(msg string) {
			hp.Close()
			srv.Close()
			vkit.ReportFailure(t.Name(), c, msg, "")
			t.Fatal(msg)
		}
		for _, l := range lics {
			if !accepted(l) {
				fail("a key of a contract the provider allows is refused")
			}
		}
		// the provider changes its mind
		broken := round % N
		mu.Lock()
		for i, l := range lics {
			switch {
			case i == broken:
				state[l.Contract()] = []string{"gone", "error"}[round%2]
			case i == (broken+1)%N:
				// stays allowed
			default:
				state[l.Contract()] = "refused"
			}
		}
		for id := range hits {
			hits[id] = 0
		}
		mu.Unlock()
		// wait until refresh rounds have demonstrably run (the broken contract has been asked for 4 times since),
		// then give the refused ones a moment longer
		deadline := time.Now().Add(30 * time.Second)
		for {
			mu.Lock()
			n := hits[lics[broken].Contract()]
			mu.Unlock()
			if n >= 4 {
				break
			}
			if time.Now().After(deadline) {
				hp.Close()
				srv.Close()
				t.Skip("the provider did not run refresh rounds within 30 s (machine stalled?)")
			}
			time.Sleep(10 * time.Millisecond)
		}
		still := 0
		for i, l := range lics {
			if i != broken && i != (broken+1)%N && accepted(l) {
				still++
			}
		}
		if still > 0 {
			fail(fmt.Sprintf("%d of %d contracts that the provider has been refusing for at least three refresh rounds still have their keys accepted (one other contract of the provider is %s)", still, N-2, state[lics[broken].Contract()]))
		}
		if !accepted(lics[(broken+1)%N]) {
			fail("the contract that is still allowed at the provider is refused after the refresh")
		}
		hp.Close()
		srv.Close()
		vkit.Record(t.Name(), c, vkit.OK(true, "contract-refresh"))
	}
}
