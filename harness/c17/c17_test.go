//go:build verif

// C17 — Transport adapters deliver the byte stream unchanged.
package c17

import (
	"bytes"
	"errors"
	"fmt"
	"io"
	"net"
	"net/http"
	"net/http/httptest"
	"runtime"
	"strings"
	"sync"
	"testing"
	"time"

	"github.com/emitter-io/emitter/internal/network/listener"
	"github.com/emitter-io/emitter/internal/network/websocket"
	"github.com/emitter-io/emitter/internal/verif/vkit"
	gws "github.com/gorilla/websocket"
	"pgregory.net/rapid"
)

func TestMain(m *testing.M) { vkit.Main(m) }

// fakeSock is a socket that returns the stream in pre-chosen chunks and records what is written to it.
type fakeSock struct {
	mu      sync.Mutex
	chunks  [][]byte
	endErr  error // returned after the last chunk ...
	errWith bool  // ... or together with it (legal io.Reader behaviour, what crypto/tls does on close_notify)
	written bytes.Buffer
	writes  int
	// a scripted transient fault: socket write number failAt accepts only failKeep bytes and reports an error (what an
	// expired write deadline on a slow reader does); the socket is usable again afterwards
	failAt, failKeep int
	faulted          bool
	refused          int
}

func (f *fakeSock) Read(p []byte) (int, error) {
	if len(f.chunks) == 0 {
		return 0, f.endErr
	}
	c := f.chunks[0]
	n := copy(p, c)
	if n < len(c) {
		f.chunks[0] = c[n:]
	} else {
		f.chunks = f.chunks[1:]
	}
	if len(f.chunks) == 0 && f.errWith {
		return n, f.endErr
	}
	return n, nil
}
func (f *fakeSock) Write(p []byte) (int, error) {
	f.mu.Lock()
	defer f.mu.Unlock()
	f.writes++
	if f.failAt > 0 && f.writes == f.failAt {
		n := min(f.failKeep, len(p))
		f.written.Write(p[:n])
		f.refused += len(p) - n
		f.faulted = true
		return n, errTimeout
	}
	return f.written.Write(p)
}
func (f *fakeSock) snapshot() ([]byte, int) {
	f.mu.Lock()
	defer f.mu.Unlock()
	return append([]byte(nil), f.written.Bytes()...), f.writes
}
func (f *fakeSock) hasFaulted() bool {
	f.mu.Lock()
	defer f.mu.Unlock()
	return f.faulted
}
func (f *fakeSock) nwrites() int {
	f.mu.Lock()
	defer f.mu.Unlock()
	return f.writes
}
func (f *fakeSock) Close() error                     { return nil }
func (f *fakeSock) LocalAddr() net.Addr              { return nil }
func (f *fakeSock) RemoteAddr() net.Addr             { return nil }
func (f *fakeSock) SetDeadline(time.Time) error      { return nil }
func (f *fakeSock) SetReadDeadline(time.Time) error  { return nil }
func (f *fakeSock) SetWriteDeadline(time.Time) error { return nil }

var prefixes = []string{"", "GET / HTTP/1.1\r\n", "POST", "PU", "PUT", "\x10\x20\x00\x04MQTT", "OPTIONS x", "GE", "G", "CONNECT", "DELETE /", "\x10"}

func stream(prefix string, n int) []byte {
	b := []byte(prefix)
	for i := 0; i < n; i++ {
		b = append(b, byte(i*7+n))
	}
	return b
}

// SniffCase: a byte stream, how the socket chunks it, which matchers peek at it and how the consumer reads.
type SniffCase struct {
	Prefix   int   `json:"prefix"`
	N        int   `json:"n"`
	Chunks   []int `json:"chunks"`   // socket read sizes, cycled
	ErrWith  bool  `json:"errwith"`  // final error delivered together with the last bytes
	ErrKind  int   `json:"errkind"`  // 0 io.EOF, 1 another error
	Matchers []int `json:"matchers"` // 0 HTTP, 1 short prefixes, 2 long prefix, 3 two-stage prefix set
	Reads    []int `json:"reads"`    // consumer buffer sizes, cycled
}

func genSniff(t *rapid.T) SniffCase {
	c := SniffCase{Prefix: rapid.IntRange(0, len(prefixes)-1).Draw(t, "prefix"),
		N:       rapid.SampledFrom([]int{0, 0, 1, 2, 5, 30, 300, 4096, 5000}).Draw(t, "n"),
		ErrWith: rapid.Bool().Draw(t, "errwith"), ErrKind: rapid.IntRange(0, 3).Draw(t, "errkind") / 3}
	c.Chunks = rapid.SliceOfN(rapid.SampledFrom([]int{1, 1, 2, 3, 5, 8, 16, 40, 100, 1000, 8192}), 1, 6).Draw(t, "chunks")
	c.Matchers = rapid.SliceOfN(rapid.IntRange(0, 3), 0, 4).Draw(t, "matchers")
	c.Reads = rapid.SliceOfN(rapid.SampledFrom([]int{1, 1, 2, 3, 4, 7, 8, 9, 16, 64, 512, 4096, 8192}), 1, 5).Draw(t, "reads")
	return c
}

var errOther = errors.New("connection reset by peer")
var errTimeout = errors.New("write tcp: i/o timeout")

func runSniff(c SniffCase) vkit.Result {
	data := stream(prefixes[c.Prefix], c.N)
	fs := &fakeSock{errWith: c.ErrWith, endErr: io.EOF}
	if c.ErrKind == 1 {
		fs.endErr = errOther
	}
	rest := data
	for i := 0; len(rest) > 0; i++ {
		k := c.Chunks[i%len(c.Chunks)]
		if k > len(rest) {
			k = len(rest)
		}
		fs.chunks = append(fs.chunks, rest[:k])
		rest = rest[k:]
	}
	conn := listener.VerifNewConn(fs, 60)
	defer conn.Close()
	var ms []listener.Matcher
	for _, m := range c.Matchers {
		switch m {
		case 0:
			ms = append(ms, listener.MatchHTTP())
		case 1:
			ms = append(ms, listener.MatchPrefix("PUT", "\x10\x20"))
		case 2:
			ms = append(ms, listener.MatchPrefix(strings.Repeat("Z", 40)))
		default:
			ms = append(ms, listener.MatchPrefix("GET /x", "GEX", "\x10\x21"))
		}
	}
	ms = append(ms, listener.MatchAny())
	matched := conn.VerifSniff(ms...)
	var got []byte
	var endErr error
	firstRead := -1
	for i := 0; ; i++ {
		buf := make([]byte, c.Reads[i%len(c.Reads)])
		n, err := conn.Read(buf)
		if i == 0 {
			firstRead = n
		}
		got = append(got, buf[:n]...)
		if err != nil {
			endErr = err
			break
		}
		if n == 0 {
			return vkit.Failf("Read returned 0 bytes without an error")
		}
		if len(got) > len(data)+10 {
			break
		}
	}
	if !bytes.Equal(got, data) {
		i := 0
		for i < len(got) && i < len(data) && got[i] == data[i] {
			i++
		}
		return vkit.Failf("consumer read %d bytes, the client sent %d (first difference at offset %d); matcher %d of %d matched; read ended with %v",
			len(got), len(data), i, matched, len(ms), endErr)
	}
	if endErr != fs.endErr {
		return vkit.Failf("stream ended with error %v, the socket reported %v", endErr, fs.endErr)
	}
	peeked := len(c.Matchers) > 0 && len(data) > 0
	spans := peeked && firstRead > 0 && c.Reads[0] >= 16
	labels := []string{fmt.Sprintf("matchers-%d", len(c.Matchers))}
	if c.ErrWith && len(data) > 0 {
		labels = append(labels, "data-with-error")
	}
	return vkit.Result{NonTrivial: peeked && (spans || c.Reads[0] < 8), Labels: labels}
}

func TestSniffer(t *testing.T) { vkit.Check(t, genSniff, runSniff) }

// ---------------------------------------------------------------------------------------------

// WOp is a write-side step: W>0 writes W bytes, W==0 flushes, W<0 waits -W milliseconds (timer flush).
type WOp struct {
	W int `json:"w"`
}

// WriteCase is a sequence of writes at a given flush rate.
type WriteCase struct {
	Rate     int   `json:"rate"`
	Ops      []WOp `json:"ops"`
	FailAt   int   `json:"failat,omitempty"`   // > 0: that socket write fails half way (transient)
	FailKeep int   `json:"failkeep,omitempty"` // bytes it accepts before failing
}

func genWrite(t *rapid.T) WriteCase {
	c := WriteCase{Rate: rapid.SampledFrom([]int{1, 2, 60, 1000, 0, 5000}).Draw(t, "rate")}
	n := rapid.IntRange(1, 40).Draw(t, "n")
	if c.Rate == 1000 && rapid.IntRange(0, 3).Draw(t, "burst") == 0 {
		n = 1100 // exceed even the highest rate within the window: direct -> queued -> flush-on-write
	}
	slow := rapid.IntRange(0, 99).Draw(t, "slow") == 0 // a few cases wait (once) for the 1 s timer flush
	for i := 0; i < n; i++ {
		switch k := rapid.IntRange(0, 19).Draw(t, "k"); {
		case k == 0:
			c.Ops = append(c.Ops, WOp{0})
		case k <= 3 && slow && n < 100 && i > 0:
			c.Ops = append(c.Ops, WOp{-1150})
			slow = false
		default:
			c.Ops = append(c.Ops, WOp{rapid.SampledFrom([]int{1, 1, 2, 5, 20, 100, 3000}).Draw(t, "sz")})
		}
	}
	if rapid.IntRange(0, 9).Draw(t, "fault") < 3 {
		c.FailAt = rapid.IntRange(1, 6).Draw(t, "failAt")
		c.FailKeep = rapid.SampledFrom([]int{0, 1, 2, 3, 7, 50, 2999}).Draw(t, "failKeep")
	}
	return c
}

func runWrite(c WriteCase) vkit.Result {
	fs := &fakeSock{failAt: c.FailAt, failKeep: c.FailKeep}
	conn := listener.VerifNewConn(fs, c.Rate)
	defer conn.Close()
	var want []byte
	queued, direct, timer, checked := 0, 0, 0, 0
	for i, op := range c.Ops {
		switch {
		case op.W > 0:
			p := bytes.Repeat([]byte{byte(i)}, op.W)
			p[0] = byte(i >> 8)
			before := fs.nwrites()
			_, err := conn.Write(p)
			if err != nil && !fs.hasFaulted() {
				return vkit.Failf("write %d: %v", i, err)
			}
			want = append(want, p...)
			if after := fs.nwrites(); after == before {
				queued++
			} else {
				direct++
			}
		case op.W == 0:
			conn.Flush()
		default:
			pending := conn.Len()
			time.Sleep(time.Duration(-op.W) * time.Millisecond)
			if pending > 0 {
				// the periodic flush (1 s) empties the queue without any further write; on a saturated machine the timer
				// goroutine may be late, so the wait is generous - only bytes that are never flushed are a failure
				deadline := time.Now().Add(vkit.WaitCeiling)
				for conn.Len() != 0 && time.Now().Before(deadline) {
					time.Sleep(20 * time.Millisecond)
				}
				if conn.Len() != 0 {
					return vkit.Failf("step %d: %d queued bytes were not flushed by the timer (waited %v without another write)", i, pending, vkit.WaitCeiling)
				}
				timer++
			}
		}
		// whatever has reached the socket so far is a prefix of what was written
		fs.mu.Lock()
		got := fs.written.Bytes()
		if fs.faulted { // bytes the socket refused may be missing from here on: judged at the end
			fs.mu.Unlock()
			continue
		}
		ok := len(got) <= len(want) && bytes.Equal(got[checked:], want[checked:len(got)])
		if ok {
			checked = len(got)
		}
		fs.mu.Unlock()
		if !ok {
			return vkit.Failf("after step %d the socket has received %d bytes that are not a prefix of the %d bytes written (queued %d, direct %d)", i, len(got), len(want), queued, direct)
		}
	}
	conn.Flush()
	got, _ := fs.snapshot()
	var labels []string
	if fs.hasFaulted() {
		// one socket write accepted only part of what it was given. Whether the rest is retried or given up, the client
		// must not receive anything twice or out of order, and must not miss more than the socket refused
		j := 0
		for _, b := range got {
			for j < len(want) && want[j] != b {
				j++
			}
			if j == len(want) {
				return vkit.Failf("socket write %d accepted %d bytes and failed: afterwards the socket has received %d bytes that are not the %d bytes written, in order and once each, less what it refused (%d bytes)", c.FailAt, c.FailKeep, len(got), len(want), fs.refused)
			}
			j++
		}
		if len(got) < len(want)-fs.refused {
			return vkit.Failf("socket write %d accepted %d bytes and failed: the socket received %d of the %d bytes written although it refused only %d", c.FailAt, c.FailKeep, len(got), len(want), fs.refused)
		}
		labels = append(labels, "socket-write-failed-half-way")
	} else if !bytes.Equal(got, want) {
		return vkit.Failf("socket received %d bytes, %d were written (queued writes %d, direct writes %d, timer flushes %d)", len(got), len(want), queued, direct, timer)
	}
	if queued > 0 {
		labels = append(labels, "path-queued")
	}
	if direct > 0 {
		labels = append(labels, "path-direct")
	}
	if timer > 0 {
		labels = append(labels, "path-timer-flush")
	}
	return vkit.Result{NonTrivial: queued > 0, Labels: labels}
}

func TestWrites(t *testing.T) { vkit.Check(t, genWrite, runWrite) }

// ---------------------------------------------------------------------------------------------

// fake websocket frame source
type frame struct {
	op   int
	data []byte
}

type fakeWS struct {
	frames   []frame
	frag     int
	eofAlone bool // message readers report EOF with a separate zero-length read (otherwise together with the last bytes)
	out      [][]byte
}

type wsWriter struct {
	f *fakeWS
	b bytes.Buffer
}

func (w *wsWriter) Write(p []byte) (int, error) { return w.b.Write(p) }
func (w *wsWriter) Close() error {
	w.f.out = append(w.f.out, append([]byte(nil), w.b.Bytes()...))
	return nil
}

type fragReader struct {
	data     []byte
	max      int
	eofAlone bool
}

func (s *fragReader) Read(p []byte) (int, error) {
	if len(s.data) == 0 {
		return 0, io.EOF
	}
	k := len(p)
	if k > s.max {
		k = s.max
	}
	n := copy(p[:k], s.data)
	s.data = s.data[n:]
	if len(s.data) == 0 && !s.eofAlone {
		return n, io.EOF
	}
	return n, nil
}

func (f *fakeWS) NextReader() (int, io.Reader, error) {
	if len(f.frames) == 0 {
		return 0, nil, io.EOF
	}
	fr := f.frames[0]
	f.frames = f.frames[1:]
	return fr.op, &fragReader{data: fr.data, max: f.frag, eofAlone: f.eofAlone}, nil
}
func (f *fakeWS) NextWriter(int) (io.WriteCloser, error) { return &wsWriter{f: f}, nil }
func (f *fakeWS) Close() error                           { return nil }
func (f *fakeWS) LocalAddr() net.Addr                    { return nil }
func (f *fakeWS) RemoteAddr() net.Addr                   { return nil }
func (f *fakeWS) SetReadDeadline(time.Time) error        { return nil }
func (f *fakeWS) SetWriteDeadline(time.Time) error       { return nil }

// WSMsg: Kind 0 binary, 1 text, 2 ping, 3 pong; N payload bytes taken from the stream (data messages only).
type WSMsg struct {
	Kind int `json:"kind"`
	N    int `json:"n"`
}

// WSCase describes the client's messages, the fragment size and how the consumer and the broker side use the adapter.
type WSCase struct {
	Msgs     []WSMsg `json:"msgs"`
	Frag     int     `json:"frag"`
	EOFAlone bool    `json:"eofalone"`
	Reads    []int   `json:"reads"`
	Writes   []int   `json:"writes"`
}

func genWS(t *rapid.T) WSCase {
	c := WSCase{Frag: rapid.SampledFrom([]int{1, 2, 7, 64, 4096}).Draw(t, "frag"), EOFAlone: rapid.Bool().Draw(t, "eofalone")}
	empties := 0
	for i, n := 0, rapid.IntRange(0, 25).Draw(t, "nmsgs"); i < n; i++ {
		m := WSMsg{Kind: rapid.SampledFrom([]int{0, 0, 0, 1, 2, 3}).Draw(t, "kind")}
		if m.Kind < 2 {
			m.N = rapid.SampledFrom([]int{0, 1, 1, 2, 5, 50, 300, 5000}).Draw(t, "len")
			if c.Frag >= 64 && rapid.IntRange(0, 9).Draw(t, "big") == 0 { // a message around / beyond the 64 KiB packet size (several packets batched into one message)
				m.N = rapid.SampledFrom([]int{65535, 65536, 65537, 65540, 70000, 140000}).Draw(t, "biglen")
			}
			if m.N == 0 {
				if empties++; empties > 5 { // bufio gives up after 100 consecutive empty reads; keep far below
					m.N = 1
				}
			} else {
				empties = 0
			}
		}
		c.Msgs = append(c.Msgs, m)
	}
	c.Reads = rapid.SliceOfN(rapid.SampledFrom([]int{1, 2, 3, 8, 64, 4096}), 1, 4).Draw(t, "reads")
	c.Writes = rapid.SliceOfN(rapid.SampledFrom([]int{0, 1, 2, 30, 5000}), 0, 6).Draw(t, "writes")
	return c
}

func runWS(c WSCase) vkit.Result {
	f := &fakeWS{frag: c.Frag, eofAlone: c.EOFAlone}
	var want []byte
	off := 0
	for _, m := range c.Msgs {
		switch m.Kind {
		case 0, 1:
			d := stream("", m.N+off)[off : m.N+off]
			for i := range d {
				d[i] = byte(off + i)
			}
			off += m.N
			want = append(want, d...)
			op := gws.BinaryMessage
			if m.Kind == 1 {
				op = gws.TextMessage
			}
			f.frames = append(f.frames, frame{op: op, data: d})
		case 2:
			f.frames = append(f.frames, frame{op: gws.PingMessage, data: []byte("ping")})
		default:
			f.frames = append(f.frames, frame{op: gws.PongMessage, data: []byte("pong")})
		}
	}
	tr := websocket.VerifNewTransport(f)
	var got []byte
	zero := 0
	for i := 0; ; i++ {
		buf := make([]byte, c.Reads[i%len(c.Reads)])
		n, err := tr.Read(buf)
		got = append(got, buf[:n]...)
		if err != nil {
			break
		}
		if n == 0 {
			if zero++; zero > 50 {
				return vkit.Failf("adapter returned more than 50 consecutive empty reads without an error")
			}
		} else {
			zero = 0
		}
		if len(got) > len(want)+10 {
			break
		}
	}
	if !bytes.Equal(got, want) {
		i := 0
		for i < len(got) && i < len(want) && got[i] == want[i] {
			i++
		}
		return vkit.Failf("bytes read through the WebSocket adapter (%d) differ from the bytes sent (%d) at offset %d", len(got), len(want), i)
	}
	var wantOut [][]byte
	for i, w := range c.Writes {
		p := bytes.Repeat([]byte{byte(i + 1)}, w)
		n, err := tr.Write(p)
		if err != nil || n != len(p) {
			return vkit.Failf("Write of %d bytes returned %d, %v", len(p), n, err)
		}
		wantOut = append(wantOut, p)
	}
	if len(f.out) != len(wantOut) {
		return vkit.Failf("%d WebSocket messages produced for %d writes", len(f.out), len(wantOut))
	}
	for i := range wantOut {
		if !bytes.Equal(f.out[i], wantOut[i]) {
			return vkit.Failf("message %d carries %d bytes, the write had %d", i, len(f.out[i]), len(wantOut[i]))
		}
	}
	ctl := false
	for _, m := range c.Msgs {
		if m.Kind >= 2 {
			ctl = true
		}
	}
	labels := []string{}
	if ctl {
		labels = append(labels, "control-frames-interleaved")
	}
	return vkit.Result{NonTrivial: len(want) > c.Reads[0] || ctl, Labels: labels}
}

func TestWebsocket(t *testing.T) { vkit.Check(t, genWS, runWS) }

// ---------------------------------------------------------------------------------------------

// RealWSCase drives a real gorilla client against TryUpgrade over a loopback HTTP server; the client's small
// write buffer forces real continuation frames.
type RealWSCase struct {
	Msgs     []int `json:"msgs"`     // message sizes
	WriteBuf int   `json:"writebuf"` // client write buffer => fragment size
	Reads    []int `json:"reads"`
	Echo     []int `json:"echo"` // sizes of messages the server side writes back
}

func genRealWS(t *rapid.T) RealWSCase {
	return RealWSCase{
		Msgs:     rapid.SliceOfN(rapid.SampledFrom([]int{1, 2, 10, 100, 1000, 20000, 20000, 65536, 65537, 100000}), 1, 8).Draw(t, "msgs"),
		WriteBuf: rapid.SampledFrom([]int{16, 64, 1024, 4096}).Draw(t, "writebuf"),
		Reads:    rapid.SliceOfN(rapid.SampledFrom([]int{1, 5, 64, 4096, 65536}), 1, 3).Draw(t, "reads"),
		Echo:     rapid.SliceOfN(rapid.SampledFrom([]int{1, 10, 1000, 70000}), 0, 4).Draw(t, "echo"),
	}
}

var wsSrvOnce sync.Once
var wsSrv *httptest.Server
var wsAccepted = make(chan net.Conn, 16)

func wsServer() *httptest.Server {
	wsSrvOnce.Do(func() {
		wsSrv = httptest.NewServer(http.HandlerFunc(func(w http.ResponseWriter, r *http.Request) {
			if c, ok := websocket.TryUpgrade(w, r); ok {
				wsAccepted <- c
			}
		}))
	})
	return wsSrv
}

func runRealWS(c RealWSCase) vkit.Result {
	srv := wsServer()
	d := gws.Dialer{WriteBufferSize: c.WriteBuf, Subprotocols: []string{"mqtt"}}
	cl, _, err := d.Dial("ws"+strings.TrimPrefix(srv.URL, "http"), nil)
	if err != nil {
		return vkit.Failf("dial: %v", err)
	}
	defer cl.Close()
	var tr net.Conn
	select {
	case tr = <-wsAccepted:
	case <-time.After(vkit.WaitCeiling):
		return vkit.Failf("upgrade did not complete")
	}
	defer tr.Close()
	var want []byte
	go func() {
		off := 0
		for i, n := range c.Msgs {
			p := make([]byte, n)
			for j := range p {
				p[j] = byte(off + j)
			}
			off += n
			typ := gws.BinaryMessage
			if i%3 == 2 {
				typ = gws.TextMessage
			}
			cl.WriteControl(gws.PingMessage, []byte("p"), time.Now().Add(5*time.Second))
			if cl.WriteMessage(typ, p) != nil {
				return
			}
		}
	}()
	total := 0
	for _, n := range c.Msgs {
		for j := 0; j < n; j++ {
			want = append(want, byte(total+j))
		}
		total += n
	}
	var got []byte
	tr.SetReadDeadline(time.Now().Add(vkit.WaitCeiling))
	for i := 0; len(got) < len(want); i++ {
		buf := make([]byte, c.Reads[i%len(c.Reads)])
		n, err := tr.Read(buf)
		got = append(got, buf[:n]...)
		if err != nil {
			return vkit.Failf("read through the adapter failed after %d of %d bytes: %v", len(got), len(want), err)
		}
	}
	if !bytes.Equal(got, want) {
		return vkit.Failf("bytes read through the adapter differ from the bytes the real WebSocket client sent (%d vs %d)", len(got), len(want))
	}
	for i, n := range c.Echo {
		p := bytes.Repeat([]byte{byte(i + 7)}, n)
		if _, err := tr.Write(p); err != nil {
			return vkit.Failf("write: %v", err)
		}
		cl.SetReadDeadline(time.Now().Add(vkit.WaitCeiling))
		typ, data, err := cl.ReadMessage()
		if err != nil || typ != gws.BinaryMessage || !bytes.Equal(data, p) {
			return vkit.Failf("client received message type %d with %d bytes (err %v) for a %d-byte write", typ, len(data), err, n)
		}
	}
	frag := false
	for _, n := range c.Msgs {
		if n > c.WriteBuf {
			frag = true
		}
	}
	labels := []string{}
	if frag {
		labels = append(labels, "real-continuation-frames")
	}
	return vkit.Result{NonTrivial: frag, Labels: labels}
}

func TestRealWebsocket(t *testing.T) { vkit.Check(t, genRealWS, runRealWS) }

// ---------------------------------------------------------------------------------------------
// Concurrent writers. The broker's publishers write to a subscriber's connection from their own goroutines while
// the flush timer runs; every Write call carries one whole packet. Whatever the schedule and the rate limiter
// decide, the socket must receive each written record once, whole, and the records of one writer in its order.

// slowSock serialises Write calls like a real socket does but consumes the bytes slowly.
type slowSock struct {
	fakeSock
	out []byte
}

func (s *slowSock) Write(p []byte) (int, error) {
	s.mu.Lock()
	defer s.mu.Unlock()
	for i := 0; i < len(p); i += 16 {
		j := i + 16
		if j > len(p) {
			j = len(p)
		}
		s.out = append(s.out, p[i:j]...)
		runtime.Gosched()
	}
	return len(p), nil
}

// CWCase: Writers goroutines write Records records each; Flushers goroutines call Flush in between.
type CWCase struct {
	Rate     int   `json:"rate"`
	Writers  int   `json:"writers"`
	Records  int   `json:"records"`
	Flushers int   `json:"flushers"`
	Sizes    []int `json:"sizes"`
}

func genCW(t *rapid.T) CWCase {
	return CWCase{
		Rate:     rapid.SampledFrom([]int{1, 2, 5, 60, 1000}).Draw(t, "rate"),
		Writers:  rapid.IntRange(2, 6).Draw(t, "writers"),
		Records:  rapid.IntRange(5, 120).Draw(t, "records"),
		Flushers: rapid.IntRange(0, 2).Draw(t, "flushers"),
		Sizes:    rapid.SliceOfN(rapid.SampledFrom([]int{0, 1, 7, 30, 120, 250}), 1, 5).Draw(t, "sizes"),
	}
}

func runCW(c CWCase) vkit.Result {
	ss := &slowSock{}
	conn := listener.VerifNewConn(ss, c.Rate)
	defer conn.Close()
	var wg sync.WaitGroup
	stop := make(chan struct{})
	var fwg sync.WaitGroup
	for f := 0; f < c.Flushers; f++ {
		fwg.Add(1)
		go func() {
			defer fwg.Done()
			for {
				select {
				case <-stop:
					return
				default:
					conn.Flush()
					runtime.Gosched()
				}
			}
		}()
	}
	for w := 0; w < c.Writers; w++ {
		wg.Add(1)
		go func(w int) {
			defer wg.Done()
			for r := 0; r < c.Records; r++ {
				sz := c.Sizes[(w+r)%len(c.Sizes)]
				p := make([]byte, 4+sz)
				p[0], p[1], p[2], p[3] = byte(0xA0+w), byte(r>>8), byte(r), byte(sz)
				for i := 4; i < len(p); i++ {
					p[i] = byte(w*31 + r)
				}
				conn.Write(p)
			}
		}(w)
	}
	wg.Wait()
	close(stop)
	fwg.Wait()
	conn.Flush()
	ss.mu.Lock()
	out := append([]byte(nil), ss.out...)
	ss.mu.Unlock()
	next := make([]int, c.Writers)
	total := 0
	for off := 0; off < len(out); {
		if len(out)-off < 4 {
			return vkit.Failf("socket stream ends with %d stray bytes at offset %d", len(out)-off, off)
		}
		w, r, sz := int(out[off])-0xA0, int(out[off+1])<<8|int(out[off+2]), int(out[off+3])
		if w < 0 || w >= c.Writers {
			return vkit.Failf("socket stream is not a sequence of whole records: byte %#x at offset %d is not a record header", out[off], off)
		}
		if off+4+sz > len(out) {
			return vkit.Failf("record (writer %d, #%d) at offset %d is cut short", w, r, off)
		}
		for i := off + 4; i < off+4+sz; i++ {
			if out[i] != byte(w*31+r) {
				return vkit.Failf("record (writer %d, #%d) at offset %d: payload byte %d is %#x, written %#x", w, r, off, i-off-4, out[i], byte(w*31+r))
			}
		}
		if r != next[w] {
			return vkit.Failf("writer %d: record #%d reached the socket where #%d was expected (%d writers, rate %d): a record was lost, duplicated or reordered", w, r, next[w], c.Writers, c.Rate)
		}
		next[w]++
		total++
		off += 4 + sz
	}
	for w, n := range next {
		if n != c.Records {
			return vkit.Failf("writer %d: %d of its %d records reached the socket", w, n, c.Records)
		}
	}
	return vkit.OK(c.Rate <= 60, fmt.Sprintf("cw-rate-%d", c.Rate))
}

func TestConcurrentWrites(t *testing.T) { vkit.Check(t, genCW, runCW) }
