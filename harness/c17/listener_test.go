//go:build verif

package c17

// The real multiplexing listener on a loopback TCP port, configured the way the broker configures it (an HTTP matcher
// in front of the catch-all MQTT matcher, a read timeout during sniffing, the write-queueing connection): whatever the
// client's first bytes look like and however TCP chunks them, the sub-listener that takes the connection reads exactly
// the bytes the client sent, and the client reads exactly what the server side wrote through the connection.

import (
	"bytes"
	"fmt"
	"io"
	"net"
	"sync"
	"testing"
	"time"

	"github.com/emitter-io/emitter/internal/network/listener"
	"github.com/emitter-io/emitter/internal/verif/vkit"
	"pgregory.net/rapid"
)

// TCPCase is one connection.
type TCPCase struct {
	Opening string `json:"opening"`         // first bytes of the stream
	N       int    `json:"n"`               // further bytes
	Chunks  []int  `json:"chunks"`          // client write sizes, cycled
	Pause   bool   `json:"pause"`           // the client pauses between chunks (separate TCP segments)
	Reads   []int  `json:"reads"`           // server-side read sizes, cycled
	Echo    []int  `json:"echo"`            // sizes of the writes of the server side
	Stall   int    `json:"stall,omitempty"` // >0: the client sends only this many bytes, stalls until the connection has been handed over (the listener's short sniffing deadline passes), then sends the rest
}

var openings = []string{"GET / HTTP/1.1\r\nHost: x\r\n\r\n", "POST /keygen HTTP/1.1\r\n\r\n", "GE", "G", "\x10\x10\x00\x04MQTT\x04\x02\x00\x3c\x00\x04abcd", "\x10", "PUT", "GETT", "HEAD / HTTP/1.0\r\n\r\n", "", "get / http/1.1\r\n", "OPTIONS * HTTP/1.1\r\n\r\n", "\xc0\x00"}

func genTCP(t *rapid.T) TCPCase {
	return TCPCase{Opening: rapid.SampledFrom(openings).Draw(t, "opening"), N: rapid.SampledFrom([]int{0, 1, 3, 8, 100, 5000, 70000}).Draw(t, "n"),
		Chunks: rapid.SliceOfN(rapid.SampledFrom([]int{1, 2, 3, 7, 100, 65536}), 1, 4).Draw(t, "chunks"), Pause: rapid.Bool().Draw(t, "pause"),
		Reads: rapid.SliceOfN(rapid.SampledFrom([]int{1, 2, 5, 64, 4096}), 1, 3).Draw(t, "reads"),
		Echo:  rapid.SliceOfN(rapid.SampledFrom([]int{1, 10, 300, 20000}), 0, 5).Draw(t, "echo"),
		Stall: rapid.SampledFrom([]int{0, 0, 0, 1, 3, 7, 12}).Draw(t, "stall")}
}

type accepted struct {
	kind string
	c    net.Conn
}

var (
	tcpOnce  [2]sync.Once
	tcpAddrs [2]string
	tcpIn    = make(chan accepted, 64)
)

// tcpListener: 0 = the broker's configuration (120 s sniffing deadline), 1 = a short sniffing deadline (250 ms)
func tcpListener(short int) string {
	tcpOnce[short].Do(func() {
		l, err := listener.New("127.0.0.1:0", listener.Config{FlushRate: 60})
		if err != nil {
			panic(err)
		}
		l.SetReadTimeout([]time.Duration{120 * time.Second, 250 * time.Millisecond}[short])
		serve := func(kind string) func(net.Listener) error {
			return func(sub net.Listener) error {
				for {
					c, err := sub.Accept()
					if err != nil {
						return err
					}
					tcpIn <- accepted{kind, c}
				}
			}
		}
		l.ServeAsync(listener.MatchHTTP(), serve("http"))
		l.ServeAsync(listener.MatchAny(), serve("any"))
		go l.Serve()
		tcpAddrs[short] = l.Addr().String()
	})
	return tcpAddrs[short]
}

func runTCP(c TCPCase) vkit.Result {
	data := append([]byte(c.Opening), stream("", c.N)...)
	if len(data) == 0 {
		data = []byte{0}
	}
	stall := c.Stall
	if stall >= len(data) {
		stall = 0
	}
	short := 0
	if stall > 0 {
		short = 1
	}
	addr := tcpListener(short)
	handedOver := make(chan struct{})
	for drained := false; !drained; { // connections an earlier (failed) case left behind
		select {
		case old := <-tcpIn:
			old.c.Close()
		default:
			drained = true
		}
	}
	cl, err := net.Dial("tcp", addr)
	if err != nil {
		panic(err)
	}
	defer cl.Close()
	go func() {
		if stall > 0 {
			cl.Write(data[:stall])
			select {
			case <-handedOver:
			case <-time.After(vkit.WaitCeiling):
			}
		}
		for off, i := stall, 0; off < len(data); i++ {
			n := c.Chunks[i%len(c.Chunks)]
			if off+n > len(data) {
				n = len(data) - off
			}
			cl.Write(data[off : off+n])
			off += n
			if c.Pause && i < 40 {
				time.Sleep(200 * time.Microsecond)
			}
		}
		// the client has said everything: it half-closes, so that a matcher waiting for more bytes of a short stream sees the end
		cl.(*net.TCPConn).CloseWrite()
	}()
	var a accepted
	select {
	case a = <-tcpIn:
	case <-time.After(vkit.WaitCeiling):
		return vkit.Failf("a connection whose stream begins %q (%d bytes) was not handed to any sub-listener", c.Opening, len(data))
	}
	defer a.c.Close()
	close(handedOver)
	// which sub-listener takes the connection is the matchers' business (not part of the property); it is recorded as a label
	labels := []string{"tcp-" + a.kind}
	if stall > 0 {
		labels = append(labels, "stalled-past-the-sniffing-deadline")
	}
	got := make([]byte, 0, len(data))
	a.c.SetReadDeadline(time.Now().Add(vkit.WaitCeiling))
	for i := 0; len(got) < len(data); i++ {
		buf := make([]byte, c.Reads[i%len(c.Reads)])
		n, err := a.c.Read(buf)
		got = append(got, buf[:n]...)
		if err != nil {
			break
		}
	}
	if !bytes.Equal(got, data) {
		i := 0
		for i < len(got) && i < len(data) && got[i] == data[i] {
			i++
		}
		return vkit.Failf("the %s sub-listener read %d bytes, the client sent %d (first difference at offset %d); stream begins %q", a.kind, len(got), len(data), i, c.Opening)
	}
	// the other direction, through the write-queueing connection
	var sent []byte
	for i, n := range c.Echo {
		p := bytes.Repeat([]byte{byte('A' + i)}, n)
		sent = append(sent, p...)
		if _, err := a.c.Write(p); err != nil {
			return vkit.Failf("server-side write: %v", err)
		}
	}
	if fl, ok := a.c.(interface{ Flush() (int, error) }); ok {
		fl.Flush()
	}
	back := make([]byte, len(sent))
	cl.SetReadDeadline(time.Now().Add(vkit.WaitCeiling))
	if _, err := io.ReadFull(cl, back); err != nil || !bytes.Equal(back, sent) {
		return vkit.Failf("the client read %v / different bytes; the server side wrote %d bytes in %d writes", err, len(sent), len(c.Echo))
	}
	return vkit.Result{NonTrivial: len(data) > 8 && len(c.Chunks) > 0, Labels: append(labels, fmt.Sprintf("opening-%q", c.Opening[:min(3, len(c.Opening))]))}
}

func TestRealListener(t *testing.T) { vkit.Check(t, genTCP, runTCP) }
