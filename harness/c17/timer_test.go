//go:build verif

package c17

// A write that arrives while the periodic flush is still inside the socket write (a slow socket): the harness holds
// the flush in the socket, lets further rate-limited writes queue up behind it, releases the socket and then only
// waits. Everything written must reach the client, in order and once, without any further write coming to the rescue.

import (
	"bytes"
	"fmt"
	"sync"
	"testing"
	"time"

	"github.com/emitter-io/emitter/internal/network/listener"
	"github.com/emitter-io/emitter/internal/verif/vkit"
	"pgregory.net/rapid"
)

type gatedSock struct {
	fakeSock
	gate    chan struct{} // non-nil: the next Write announces itself on entered and waits for the gate
	entered chan struct{}
	gmu     sync.Mutex
}

func (g *gatedSock) Write(p []byte) (int, error) {
	g.gmu.Lock()
	gate := g.gate
	g.gate = nil
	g.gmu.Unlock()
	if gate != nil {
		g.entered <- struct{}{}
		<-gate
	}
	return g.fakeSock.Write(p)
}

// TFCase: sizes of the writes queued before the timer flush and of those arriving while it is in the socket.
type TFCase struct {
	Rate   int   `json:"rate"`
	Before []int `json:"before"`
	During []int `json:"during"`
	Rounds int   `json:"rounds"`
}

func genTF(t *rapid.T) TFCase {
	return TFCase{Rate: rapid.SampledFrom([]int{1, 2}).Draw(t, "rate"), Rounds: rapid.IntRange(1, 2).Draw(t, "rounds"),
		Before: rapid.SliceOfN(rapid.SampledFrom([]int{1, 5, 100, 3000}), 1, 4).Draw(t, "before"),
		During: rapid.SliceOfN(rapid.SampledFrom([]int{1, 5, 100, 3000}), 2, 6).Draw(t, "during")}
}

func runTF(c TFCase) vkit.Result {
	gs := &gatedSock{entered: make(chan struct{}, 1)}
	conn := listener.VerifNewConn(gs, c.Rate)
	defer conn.Close()
	var want []byte
	seq := 0
	var wmu sync.Mutex
	runs := map[byte]int{} // byte value -> length of the write that carries it (every write has its own value)
	write := func(n int) {
		wmu.Lock()
		p := bytes.Repeat([]byte{byte(seq)}, n)
		runs[byte(seq)] = n
		seq++
		want = append(want, p...)
		wmu.Unlock()
		conn.Write(p)
	}
	for i := 0; i < c.Rate+1; i++ { // use up the rate: from here on writes are queued
		write(3)
	}
	for round := 0; round < c.Rounds; round++ {
		for _, n := range c.Before {
			write(n)
		}
		if conn.Len() == 0 {
			return vkit.OK(false, "writes-were-not-queued")
		}
		gate := make(chan struct{})
		gs.gmu.Lock()
		gs.gate = gate
		gs.gmu.Unlock()
		select {
		case <-gs.entered: // the periodic flush is inside the socket write now
		case <-time.After(vkit.WaitCeiling):
			return vkit.Failf("%d queued bytes were never flushed by the timer", conn.Len())
		}
		// the writes arrive while the flush is in the socket (they may have to wait for it, depending on the locking)
		doneW := make(chan struct{})
		go func() {
			defer close(doneW)
			var wg sync.WaitGroup
			for _, n := range c.During { // from several goroutines at once (several publishers fanning out to this subscriber)
				wg.Add(1)
				go func(n int) { defer wg.Done(); write(n) }(n)
			}
			wg.Wait()
		}()
		time.Sleep(30 * time.Millisecond)
		close(gate)
		<-doneW
		// no further write: the periodic flush alone has to deliver what was queued meanwhile
		deadline := time.Now().Add(vkit.WaitCeiling)
		if vkit.Tier() == "quick" {
			deadline = time.Now().Add(45 * time.Second)
		}
		for {
			got, _ := gs.snapshot()
			if len(got) >= len(want) {
				break
			}
			if time.Now().After(deadline) {
				return vkit.Failf("round %d: %d bytes written while the periodic flush was inside the socket write stay queued (%d of %d bytes delivered) although the connection is idle: no flush is scheduled for them", round, len(want)-len(got), len(got), len(want))
			}
			time.Sleep(20 * time.Millisecond)
		}
	}
	// every write arrives whole and once (writes made at the same time may arrive in either order)
	got, _ := gs.snapshot()
	seen := map[byte]bool{}
	for off := 0; off < len(got); {
		v := got[off]
		n, ok := runs[v]
		if !ok || seen[v] || off+n > len(got) || !bytes.Equal(got[off:off+n], bytes.Repeat([]byte{v}, n)) {
			return vkit.Failf("the socket received %d bytes for %d written; at offset %d they are not a whole write arriving for the first time", len(got), len(want), off)
		}
		seen[v] = true
		off += n
	}
	if len(seen) != len(runs) {
		return vkit.Failf("%d of %d writes reached the socket", len(seen), len(runs))
	}
	return vkit.OK(true, fmt.Sprintf("write-during-timer-flush-rate-%d", c.Rate))
}

func TestWriteDuringTimerFlush(t *testing.T) { vkit.Check(t, genTF, runTF) }
