//go:build verif

// C07 — Messages are retained and replayed exactly as requested.
package c07

import (
	"bytes"
	"fmt"
	"sort"
	"strconv"
	"strings"
	"sync"
	"testing"
	"time"

	"github.com/eclipse/paho.mqtt.golang/packets"
	"github.com/emitter-io/emitter/internal/message"
	"github.com/emitter-io/emitter/internal/security"
	"github.com/emitter-io/emitter/internal/verif/vkit"
	"pgregory.net/rapid"
)

func TestMain(m *testing.M) { vkit.Main(m) }

// Op is one step. K: pub, sub, unsub, will (a client connects with a last will and goes away), linkpub (a link is
// created for the channel with its ttl option and the message is published through the 2-character alias).
type Op struct {
	K      string `json:"op"`
	C      int    `json:"c"`
	Ch     string `json:"ch"`  // channel / filter below the per-case namespace level
	Key    string `json:"key"` // letters of r w s l
	Retain bool   `json:"retain,omitempty"`
	TTL    string `json:"ttl,omitempty"`  // value of the ttl option, "" = absent
	Last   string `json:"last,omitempty"` // value of the last option, "" = absent
	Win    string `json:"win,omitempty"`  // "", around, past, future, from, until, junk
	Size   int    `json:"size,omitempty"`
	End    string `json:"end,omitempty"` // will: close | disconnect
}

// Case is a history on 2-3 clients.
type Case struct {
	Clients int  `json:"clients"`
	Ops     []Op `json:"ops"`
}

var chans = []string{"a/", "a/b/", "a/b/c/", "x/", "a/c/"}
var filters = []string{"a/", "a/", "a/b/", "a/+/", "x/", "a/b/c/", "+/", "", "", "a/c/"}
var pubKeys = []string{"rws", "rws", "rws", "rws", "rwsl", "ws", "ws", "rw", "w", "rs", "sl"} // rs / sl: no write permission - the publish is refused and must leave nothing behind
var subKeys = []string{"rl", "rl", "rl", "rl", "rwsl", "rwl", "r", "rs"}

func genCase(t *rapid.T) Case {
	c := Case{Clients: rapid.IntRange(2, 3).Draw(t, "clients")}
	for i, n := 0, rapid.IntRange(1, 25).Draw(t, "nops"); i < n; i++ {
		op := Op{C: rapid.IntRange(0, c.Clients-1).Draw(t, "c")}
		switch k := rapid.IntRange(0, 19).Draw(t, "kind"); {
		case k < 10:
			op.K = "pub"
			if rapid.IntRange(0, 5).Draw(t, "vialink") == 0 {
				op.K = "linkpub"
			}
			op.Ch = rapid.SampledFrom(chans).Draw(t, "ch")
			op.Key = rapid.SampledFrom(pubKeys).Draw(t, "key")
			if op.K == "linkpub" && !strings.Contains(op.Key, "w") {
				op.Key = "rws"
			}
			op.Retain = rapid.IntRange(0, 2).Draw(t, "retain") == 0
			op.TTL = rapid.SampledFrom([]string{"", "0", "5", "3600", "3600", "3600", "86400", "86400", "4294967294", "x", "007"}).Draw(t, "ttl")
			op.Size = rapid.SampledFrom([]int{0, 1, 4, 4, 4, 200}).Draw(t, "size")
		case k < 16:
			op.K = "sub"
			op.Ch = rapid.SampledFrom(filters).Draw(t, "f")
			op.Key = rapid.SampledFrom(subKeys).Draw(t, "key")
			op.Last = rapid.SampledFrom([]string{"", "", "0", "1", "2", "2", "3", "3", "5", "1000000", "1099511627776"}).Draw(t, "last")
			op.Win = rapid.SampledFrom([]string{"", "", "", "", "", "around", "around", "past", "future", "from", "until", "junk"}).Draw(t, "win")
		case k < 18:
			op.K = "unsub"
			op.Ch = rapid.SampledFrom(filters).Draw(t, "f")
		default:
			op.K = "will"
			op.Ch = rapid.SampledFrom(chans).Draw(t, "ch")
			op.Key = rapid.SampledFrom(pubKeys[:9]).Draw(t, "key") // wills: write-capable keys only (C08 covers wills without write permission)
			op.Retain = rapid.Bool().Draw(t, "retain")
			op.End = rapid.SampledFrom([]string{"close", "disconnect"}).Draw(t, "end")
		}
		c.Ops = append(c.Ops, op)
	}
	return c
}

const retention = 7200

var shared *vkit.Broker
var keys = map[string]string{}
var caseNo int

func perms(k string) uint8 {
	var p uint8
	for _, c := range k {
		switch c {
		case 'r':
			p |= security.AllowRead
		case 'w':
			p |= security.AllowWrite
		case 's':
			p |= security.AllowStore
		case 'l':
			p |= security.AllowLoad
		}
	}
	return p
}

func theBroker() *vkit.Broker {
	if shared == nil {
		b, err := vkit.NewBroker(vkit.BrokerOpts{Storage: "inmemory", Retention: retention})
		if err != nil {
			panic(err)
		}
		shared = b
		keys = map[string]string{}
		for _, k := range append(append([]string{}, pubKeys...), subKeys...) {
			keys[k] = b.Key("#/", perms(k))
		}
	}
	return shared
}

type stored struct {
	ch      string
	payload []byte
	ttl     uint32
	seq     int
}

func run(c Case) vkit.Result {
	b := theBroker()
	caseNo++
	ns := fmt.Sprintf("n%d/", caseNo) // per-case namespace level: one broker (and one store) serves many cases
	fail := func(format string, a ...interface{}) vkit.Result {
		shared = nil
		return vkit.Failf(format, a...)
	}
	clients := make([]*vkit.Client, c.Clients)
	subs := make([]map[string]bool, c.Clients)
	for i := range clients {
		clients[i] = b.Attach(fmt.Sprintf("c%d", i))
		if err := clients[i].Connect(fmt.Sprintf("c7-%d", i), "", nil); err != nil {
			return fail("connect: %v", err)
		}
		subs[i] = map[string]bool{}
	}
	var model []stored
	labels := map[string]bool{}
	nontrivial := false
	seq := 0
	now := time.Now().Unix()
	storeModel := func(ch string, payload []byte, key string, retain bool, ttlOpt string) {
		var ttl int64
		if retain {
			ttl = retention
		}
		if v, err := strconv.ParseInt(ttlOpt, 10, 64); err == nil && v > 0 { // "a positive ttl option"
			ttl = v
		}
		if ttl > 0 && strings.Contains(key, "s") {
			seq++
			model = append(model, stored{ns + ch, payload, uint32(ttl), seq})
			labels["stored"] = true
		} else if ttl > 0 {
			labels["not-stored:no-store-permission"] = true
		}
	}
	deliverLive := func(step int, from int, ch string, payload []byte, selfGets bool) string {
		for i, cl := range clients {
			var pubs []*packets.PublishPacket
			var err error
			if i == from {
				continue
			}
			if pubs, err = cl.Barrier(); err != nil {
				return fmt.Sprintf("step %d: barrier: %v", step, err)
			}
			want := 0
			for f := range subs[i] {
				if vkit.MatchStr(false, f, ns+ch) {
					want = 1
				}
			}
			if len(pubs) != want {
				return fmt.Sprintf("step %d: live publish on %s: client %d received %d packets, expected %d", step, ch, i, len(pubs), want)
			}
			for _, p := range pubs {
				if p.TopicName != ns+ch || !bytes.Equal(p.Payload, payload) {
					return fmt.Sprintf("step %d: client %d received %q/%q", step, i, p.TopicName, p.Payload)
				}
			}
		}
		return ""
	}
	for step, op := range c.Ops {
		cl := clients[op.C]
		switch op.K {
		case "pub", "linkpub":
			payload := []byte(fmt.Sprintf("m%03d", step))
			if op.Size != 4 {
				payload = bytes.Repeat([]byte{byte('A' + step%26)}, op.Size)
			}
			topic := keys[op.Key] + "/" + ns + op.Ch
			if op.TTL != "" {
				topic += "?ttl=" + op.TTL
			}
			if op.K == "linkpub" {
				chOpt := ns + op.Ch
				if op.TTL != "" {
					chOpt += "?ttl=" + op.TTL
				}
				lp, err := cl.Request(uint16(step+1), "link", map[string]interface{}{"name": "L1", "key": keys[op.Key], "channel": chOpt, "subscribe": false})
				if err != nil || len(lp) != 1 || !strings.Contains(string(lp[0].Payload), `"status":200`) {
					return fail("step %d: link request for %q: %v %d replies", step, chOpt, err, len(lp))
				}
				topic = "L1"
				labels["publish-through-link-with-options"] = true
			}
			own, err := cl.Publish(uint16(step+1), topic, payload, op.Retain)
			if err != nil {
				return fail("step %d: publish: %v", step, err)
			}
			if !strings.Contains(op.Key, "w") && op.K == "pub" {
				// refused: an error reply, nothing delivered, nothing stored
				if len(own) != 1 {
					return fail("step %d: publish with a key without write permission: %d replies, expected one error", step, len(own))
				}
				if st, _, isErr := vkit.IsErrorReply(own[0]); !isErr || st != 401 {
					return fail("step %d: publish with a key without write permission was answered on %q", step, own[0].TopicName)
				}
				for i, o := range clients {
					if i == op.C {
						continue
					}
					if got, err := o.Barrier(); err != nil || len(got) != 0 {
						return fail("step %d: a refused publish was delivered to client %d (%d packets, %v)", step, i, len(got), err)
					}
				}
				labels["publish-refused-no-write-permission"] = true
				continue
			}
			wantOwn := 0
			for f := range subs[op.C] {
				if vkit.MatchStr(false, f, ns+op.Ch) {
					wantOwn = 1
				}
			}
			if len(own) != wantOwn {
				return fail("step %d: publisher received %d packets for its own publish, expected %d", step, len(own), wantOwn)
			}
			storeModel(op.Ch, payload, op.Key, op.Retain, op.TTL)
			if msg := deliverLive(step, op.C, op.Ch, payload, true); msg != "" {
				return fail("%s", msg)
			}
		case "will":
			wc := b.Attach("will")
			payload := []byte(fmt.Sprintf("w%03d", step))
			if err := wc.Connect("willer", "", &vkit.Will{Topic: keys[op.Key] + "/" + ns + op.Ch, Payload: string(payload), Retain: op.Retain}); err != nil {
				return fail("step %d: connect with will: %v", step, err)
			}
			if op.End == "disconnect" {
				wc.Send(packets.NewControlPacket(packets.Disconnect))
				if err := wc.WaitClosed(); err != nil {
					return fail("step %d: connection not closed after DISCONNECT: %v", step, err)
				}
			} else if err := wc.Close(); err != nil {
				return fail("step %d: close: %v", step, err)
			}
			storeModel(op.Ch, payload, op.Key, op.Retain, "")
			labels["last-will"] = true
			if msg := deliverLive(step, -1, op.Ch, payload, false); msg != "" {
				return fail("%s", msg)
			}
		case "unsub":
			if _, err := cl.Unsubscribe(uint16(step+1), keys["rl"]+"/"+ns+op.Ch); err != nil {
				return fail("step %d: unsubscribe: %v", step, err)
			}
			delete(subs[op.C], ns+op.Ch)
		case "sub":
			var opts []string
			if op.Last != "" {
				opts = append(opts, "last="+op.Last)
			}
			inWindow := true
			switch op.Win {
			case "around":
				opts = append(opts, fmt.Sprintf("from=%d", now-3600), fmt.Sprintf("until=%d", now+3600))
			case "past":
				opts = append(opts, fmt.Sprintf("until=%d", now-100000))
				inWindow = false
			case "future":
				opts = append(opts, fmt.Sprintf("from=%d", now+100000))
				inWindow = false
			case "from":
				opts = append(opts, fmt.Sprintf("from=%d", now-3600))
			case "until":
				opts = append(opts, fmt.Sprintf("until=%d", now+3600))
			case "junk": // outside [2018, 2066]: ignored by Channel.Window
				opts = append(opts, "from=5", "until=99999999999")
			}
			topic := keys[op.Key] + "/" + ns + op.Ch
			if len(opts) > 0 {
				topic += "?" + strings.Join(opts, "&")
			}
			codes, pubs, err := cl.Subscribe(uint16(step+1), topic)
			if err != nil {
				return fail("step %d: subscribe %s: %v", step, topic[33:], err)
			}
			if codes[0] == 0x80 {
				return fail("step %d: subscribe with a read key refused", step)
			}
			if subs[op.C][ns+op.Ch] {
				labels["resubscribe-same-connection"] = true
			}
			subs[op.C][ns+op.Ch] = true
			var want []stored
			if strings.Contains(op.Key, "l") && inWindow {
				n := int64(1)
				if v, err := strconv.ParseInt(op.Last, 10, 64); err == nil {
					n = v
				}
				var cand []stored
				for _, m := range model {
					if vkit.MatchStr(false, ns+op.Ch, m.ch) {
						cand = append(cand, m)
					}
				}
				if int64(len(cand)) > n {
					cand = cand[int64(len(cand))-n:]
				}
				want = cand
				if len(cand) > 0 && len(cand) < len(model) {
					nontrivial = true
				}
			} else if !strings.Contains(op.Key, "l") {
				labels["subscribe-without-load-permission"] = true
			}
			got := map[string]int{}
			for _, p := range pubs {
				got[p.TopicName+"|"+string(p.Payload)]++
			}
			wantM := map[string]int{}
			for _, m := range want {
				wantM[m.ch+"|"+string(m.payload)]++
			}
			if fmt.Sprint(got) != fmt.Sprint(wantM) {
				return fail("step %d: subscribe %+v: %d messages replayed before the SUBACK %v, expected the last %d stored matching ones %v (store model: %d messages)",
					step, op, len(pubs), keysOf(got), len(want), keysOf(wantM), len(model))
			}
			if len(want) > 0 {
				labels["replayed"] = true
			}
			// nothing arrives after the SUBACK without a new publish
			if late, err := cl.Barrier(); err != nil || len(late) != 0 {
				return fail("step %d: %d packets arrived after the SUBACK (%v)", step, len(late), err)
			}
		}
	}
	// the store holds exactly the model: once each, under the publisher's channel, with the requested ttl
	st := b.S.VerifStorage()
	gotStore := map[string]int{}
	for _, top := range []string{"a", "x"} {
		ch := security.ParseChannel([]byte("k/" + ns + top + "/"))
		msgs, err := st.Query(message.NewSsid(b.Lic.Contract(), ch.Query), time.Unix(0, 0), time.Unix(0, 0), nil, 100000)
		if err != nil {
			return fail("store query: %v", err)
		}
		for _, m := range msgs {
			gotStore[fmt.Sprintf("%s|%s|%d", m.Channel, m.Payload, m.TTL)]++
			if m.Contract() != b.Lic.Contract() {
				return fail("stored message carries contract %d", m.Contract())
			}
		}
	}
	wantStore := map[string]int{}
	for _, m := range model {
		wantStore[fmt.Sprintf("%s|%s|%d", m.ch, m.payload, m.ttl)]++
	}
	if fmt.Sprint(gotStore) != fmt.Sprint(wantStore) {
		return fail("the store holds %v, expected %v", keysOf(gotStore), keysOf(wantStore))
	}
	for _, cl := range clients {
		if err := cl.Close(); err != nil {
			return fail("close: %v", err)
		}
	}
	r := vkit.Result{NonTrivial: nontrivial}
	for l := range labels {
		r.Labels = append(r.Labels, l)
	}
	sort.Strings(r.Labels)
	return r
}

func keysOf(m map[string]int) []string {
	var out []string
	for k, n := range m {
		if len(k) > 60 {
			k = k[:60] + "…"
		}
		out = append(out, fmt.Sprintf("%s x%d", k, n))
	}
	sort.Strings(out)
	return out
}

func TestRetainReplay(t *testing.T) { vkit.Check(t, genCase, run) }

// TestLargeReplay: "the last N stored matching messages" for N beyond any internal buffer size: 1100 tiny stored
// messages (well inside the 64 KiB reply cap) and last = 1000 / 1024 / 1025 / 1100 / 5000.
func TestLargeReplay(t *testing.T) {
	b := theBroker()
	pub := b.Attach("bigpub")
	if err := pub.Connect("bigpub", "", nil); err != nil {
		t.Fatal(err)
	}
	const total = 1100
	for i := 0; i < total; i++ {
		if _, err := pub.Publish(uint16(i+1), keys["rws"]+"/big/?ttl=3600", []byte(fmt.Sprintf("%04d", i)), false); err != nil {
			t.Fatal(err)
		}
	}
	for _, last := range []int{1000, 1024, 1025, 1100, 5000} {
		sub := b.Attach("bigsub")
		if err := sub.Connect("bigsub", "", nil); err != nil {
			t.Fatal(err)
		}
		_, pubs, err := sub.Subscribe(1, fmt.Sprintf("%s/big/?last=%d", keys["rl"], last))
		if err != nil {
			t.Fatal(err)
		}
		want := last
		if want > total {
			want = total
		}
		c := map[string]int{"stored": total, "last": last}
		seen := map[string]bool{}
		for _, p := range pubs {
			seen[string(p.Payload)] = true
		}
		ok := len(pubs) == want && len(seen) == want
		for i := total - want; i < total && ok; i++ {
			ok = seen[fmt.Sprintf("%04d", i)]
		}
		if !ok {
			vkit.ReportFailure(t.Name(), c, fmt.Sprintf("subscribe with last=%d on a channel holding %d stored messages replayed %d (%d distinct), expected the newest %d", last, total, len(pubs), len(seen), want), "")
			t.Fatalf("large replay last=%d got %d", last, len(pubs))
		}
		vkit.Record(t.Name(), c, vkit.OK(true, "large-replay"))
		sub.Close()
	}
	pub.Close()
}

// TestConcurrentPublishers: several clients publish stored messages at the same time, each on its own channel, while
// further goroutines write to the same store directly (as last wills and cluster-side handlers do). Afterwards the
// store holds every message exactly once, under its publisher's channel, with its payload and ttl.
func TestConcurrentPublishers(t *testing.T) {
	rounds := vkit.N(2)
	for round := 0; round < rounds; round++ {
		b := theBroker()
		caseNo++
		ns := fmt.Sprintf("cp%d", caseNo)
		const G, N, D, DN = 6, 250, 6, 1500
		var wg sync.WaitGroup
		errs := make(chan string, G+D)
		for g := 0; g < G; g++ {
			wg.Add(1)
			go func(g int) {
				defer wg.Done()
				cl := b.Attach(fmt.Sprintf("cp-%d", g))
				if err := cl.Connect(fmt.Sprintf("cp-%d", g), "", nil); err != nil {
					errs <- err.Error()
					return
				}
				defer cl.Close()
				for i := 0; i < N; i++ {
					topic := fmt.Sprintf("%s/%s/c%d/?ttl=%d", keys["rws"], ns, g, 3600+g)
					if _, err := cl.Publish(uint16(i+1), topic, []byte(fmt.Sprintf("c%d-%04d", g, i)), false); err != nil {
						errs <- "publish: " + err.Error()
						return
					}
				}
			}(g)
		}
		st := b.S.VerifStorage()
		for d := 0; d < D; d++ {
			wg.Add(1)
			go func(d int) {
				defer wg.Done()
				chName := fmt.Sprintf("%s/d%d/", ns, d)
				ch := security.ParseChannel([]byte("k/" + chName))
				for i := 0; i < DN; i++ {
					m := message.New(message.NewSsid(b.Lic.Contract(), ch.Query), []byte(chName), []byte(fmt.Sprintf("d%d-%04d", d, i)))
					m.TTL = uint32(5000 + d)
					if err := st.Store(m); err != nil {
						errs <- "store: " + err.Error()
						return
					}
				}
			}(d)
		}
		wg.Wait()
		c := map[string]int{"round": round, "publishers": G, "direct-writers": D}
		fail := func(msg string) {
			shared = nil
			vkit.ReportFailure(t.Name(), c, msg, "")
			t.Fatal(msg)
		}
		select {
		case m := <-errs:
			fail(m)
		default:
		}
		check := func(chName, prefix string, n int, ttl uint32) {
			ch := security.ParseChannel([]byte("k/" + chName))
			seen := map[string]int{}
			var from message.ID
			for page := 0; page < 100; page++ { // page through the whole channel (64 KiB reply cap per query)
				msgs, err := st.Query(message.NewSsid(b.Lic.Contract(), ch.Query), time.Unix(0, 0), time.Unix(0, 0), from, 100000)
				if err != nil {
					fail("store query: " + err.Error())
				}
				if len(msgs) == 0 {
					break
				}
				oldest := msgs[0].ID
				for _, m := range msgs {
					if string(m.Channel) != chName || m.TTL != ttl || !strings.HasPrefix(string(m.Payload), prefix) {
						fail(fmt.Sprintf("with %d clients and %d writers storing at once, the history of %s holds a message with channel %q, payload %q, ttl %d (this publisher's messages: %sNNNN, ttl %d)", G, D, chName, m.Channel, m.Payload, m.TTL, prefix, ttl))
					}
					seen[string(m.Payload)]++
					if bytes.Compare(m.ID, oldest) > 0 {
						oldest = m.ID
					}
				}
				from = oldest
			}
			for i := 0; i < n; i++ {
				if k := seen[fmt.Sprintf("%s%04d", prefix, i)]; k != 1 {
					fail(fmt.Sprintf("with %d clients and %d writers storing at once, message %s%04d is %d times in the history of %s (%d distinct messages there, %d were published)", G, D, prefix, i, k, chName, len(seen), n))
				}
			}
		}
		for g := 0; g < G; g++ {
			check(fmt.Sprintf("%s/c%d/", ns, g), fmt.Sprintf("c%d-", g), N, uint32(3600+g))
		}
		for d := 0; d < D; d++ {
			check(fmt.Sprintf("%s/d%d/", ns, d), fmt.Sprintf("d%d-", d), DN, uint32(5000+d))
		}
		vkit.Record(t.Name(), c, vkit.OK(true, "concurrent-publishers"))
	}
}
