//go:build verif

package c09

import (
	"encoding/json"
	"fmt"
	"runtime"
	"strings"
	"sync"
	"time"

	"github.com/eclipse/paho.mqtt.golang/packets"

	"github.com/emitter-io/emitter/internal/message"
	"github.com/emitter-io/emitter/internal/security"
	"github.com/emitter-io/emitter/internal/verif/vkit"
	"github.com/weaveworks/mesh"
)

// Req is one hostile input handed to the child broker. Kind: client (bytes written to a fresh client connection),
// gossip / broadcast / unicast (payload handed to the swarm's cluster-port entry points), survey-ssd /
// survey-presence (survey payload handed to the handler), message (DecodeMessage).
type Req struct {
	Kind         string `json:"kind"`
	Data         []byte `json:"data"`
	ExpectClosed bool   `json:"expectclosed,omitempty"`
}

// Resp is what the child observed.
type Resp struct {
	Closed bool   `json:"closed"` // the broker closed the attacked connection by itself (checked for oversize declarations)
	Canary string `json:"canary"` // "" = the canary client was served correctly
	Alloc  uint64 `json:"alloc"`  // TotalAlloc delta while handling the input
	Ret    string `json:"ret"`    // what the entry point returned (cluster kinds)
}

type childEnv struct {
	b      *vkit.Broker
	canary *vkit.Client
	key    string
	n      int
}

var child *childEnv

func childInit() *childEnv {
	if child != nil {
		return child
	}
	b, err := vkit.NewBroker(vkit.BrokerOpts{Storage: "inmemory", LicSeed: "c09"})
	if err != nil {
		panic(err)
	}
	b.S.VerifSurveyor().Start()
	e := &childEnv{b: b, key: b.Key("#/", security.AllowAll&^security.AllowExtend)}
	e.canary = b.Attach("canary")
	if err := e.canary.Connect("canary", "canary", nil); err != nil {
		panic(err)
	}
	if codes, _, err := e.canary.Subscribe(1, e.key+"/canary/"); err != nil || codes[0] == 0x80 {
		panic(fmt.Sprint("canary subscribe ", codes, err))
	}
	// some history so that history / last= requests have something to return
	for i := 0; i < 40; i++ {
		e.canary.Publish(uint16(i+2), e.key+"/a/b/?ttl=3600", []byte(fmt.Sprintf("stored-%d", i)), false)
	}
	child = e
	return e
}

// canaryLoop: a bystander's subscribe / publish / echo / unsubscribe keeps working.
func (e *childEnv) canaryLoop() string {
	e.n++
	tmp := fmt.Sprintf("%s/canary/t%d/", e.key, e.n)
	codes, _, err := e.canary.Subscribe(3, tmp)
	if err != nil || codes[0] == 0x80 {
		return fmt.Sprintf("canary subscribe: %v %v", codes, err)
	}
	payload := fmt.Sprintf("echo-%d", e.n)
	pubs, err := e.canary.Publish(4, fmt.Sprintf("%s/canary/t%d/", e.key, e.n), []byte(payload), false)
	if err != nil {
		return "canary publish: " + err.Error()
	}
	if len(pubs) != 1 || string(pubs[0].Payload) != payload {
		return fmt.Sprintf("canary received %d packets for its own publish", len(pubs))
	}
	if _, err := e.canary.Unsubscribe(5, tmp); err != nil {
		return "canary unsubscribe: " + err.Error()
	}
	return ""
}

func handle(in []byte) []byte {
	e := childInit()
	var rq Req
	if err := json.Unmarshal(in, &rq); err != nil {
		panic(err)
	}
	var ms runtime.MemStats
	runtime.ReadMemStats(&ms)
	before := ms.TotalAlloc
	var rs Resp
	switch rq.Kind {
	case "client":
		c := e.b.Attach("attacker")
		werr := c.Write(rq.Data)
		_ = werr
		// a declaration above the configured message size must make the broker close by itself; otherwise the
		// client goes away (EOF) and the connection's goroutine must terminate: it is neither stuck nor does it
		// take the process down
		if rq.ExpectClosed {
			select {
			case <-c.Closed:
				rs.Closed = true
			case <-time.After(150 * time.Second): // earlier requests of the stream (thousands of subscriptions) may still be processed
			}
		}
		c.Conn.Close()
		select {
		case <-c.Closed:
		case <-time.After(120 * time.Second):
			rs.Canary = "the attacked connection's goroutine did not terminate within 120 s after the client went away"
		}
	case "clients":
		rs.Canary = e.concurrentClients(rq.Data)
	case "gossip":
		d, err := e.b.S.VerifSwarm().OnGossip(rq.Data)
		rs.Ret = fmt.Sprintf("delta=%v err=%v", d != nil, err)
	case "broadcast":
		d, err := e.b.S.VerifSwarm().OnGossipBroadcast(mesh.PeerName(77), rq.Data)
		rs.Ret = fmt.Sprintf("delta=%v err=%v", d != nil, err)
	case "unicast":
		err := e.b.S.VerifSwarm().OnGossipUnicast(mesh.PeerName(77), rq.Data)
		rs.Ret = fmt.Sprintf("err=%v", err)
	case "survey-ssd":
		out, ok := e.b.S.VerifStorage().OnSurvey("ssdstore", rq.Data)
		rs.Ret = fmt.Sprintf("ok=%v len=%d", ok, len(out))
	case "survey-presence":
		out, ok := e.b.S.VerifPresence().OnSurvey("presence", rq.Data)
		rs.Ret = fmt.Sprintf("ok=%v len=%d", ok, len(out))
	case "message":
		m, err := message.DecodeMessage(rq.Data)
		rs.Ret = fmt.Sprintf("err=%v idlen=%d", err, len(m.ID))
	default:
		panic("unknown kind " + rq.Kind)
	}
	runtime.ReadMemStats(&ms)
	rs.Alloc = ms.TotalAlloc - before
	if rs.Canary == "" {
		rs.Canary = e.canaryLoop()
	}
	out, _ := json.Marshal(rs)
	return out
}

// ClientsSpec: well-formed clients working at the same time (the input of kind "clients").
type ClientsSpec struct {
	Clients int      `json:"clients"`
	Filters []string `json:"filters"` // filter of client i = Filters[i % len]
	Msgs    int      `json:"msgs"`
	Size    int      `json:"size"`
	// Big > 0: client 0 also makes a two-character shortcut (emitter/link/) for the common channel and publishes
	// a payload of Big bytes through it: the packet fits the message size coming in, but with the shortcut expanded to
	// the channel name it does not fit going out. Nobody can be sent that message - and nobody may suffer for it.
	Big int `json:"big,omitempty"`
}

// concurrentClients: every client subscribes its filter, then all publish to the same channels at once, ping and leave.
func (e *childEnv) concurrentClients(data []byte) string {
	var sp ClientsSpec
	if err := json.Unmarshal(data, &sp); err != nil {
		panic(err)
	}
	e.n++
	ns := fmt.Sprintf("w%d", e.n)
	errs := make(chan string, sp.Clients)
	start := make(chan struct{})
	var wg sync.WaitGroup
	for i := 0; i < sp.Clients; i++ {
		wg.Add(1)
		go func(i int) {
			defer wg.Done()
			c := e.b.Attach(fmt.Sprintf("w%d", i))
			defer c.Conn.Close()
			if err := c.Connect(fmt.Sprintf("w%d", i), "", nil); err != nil {
				errs <- "connect: " + err.Error()
				return
			}
			f := strings.ReplaceAll(sp.Filters[i%len(sp.Filters)], "NS", ns)
			if codes, _, err := c.Subscribe(1, e.key+"/"+f); err != nil || codes[0] == 0x80 {
				errs <- fmt.Sprintf("subscribe %s: %v %v", f, codes, err)
				return
			}
			<-start
			if sp.Big > 0 && i == 0 {
				if _, err := c.Request(2, "link", map[string]interface{}{"name": "lk", "key": e.key, "channel": ns + "/x0/", "subscribe": false}); err != nil {
					errs <- "link request: " + err.Error()
					return
				}
				p := packets.NewControlPacket(packets.Publish).(*packets.PublishPacket)
				p.TopicName, p.Payload = "lk", make([]byte, sp.Big)
				if err := c.Send(p); err != nil {
					errs <- "publish through the shortcut: " + err.Error()
					return
				}
			}
			for m := 0; m < sp.Msgs; m++ {
				p := packets.NewControlPacket(packets.Publish).(*packets.PublishPacket)
				p.TopicName, p.Payload = fmt.Sprintf("%s/%s/x%d/", e.key, ns, m%3), make([]byte, sp.Size)
				if err := c.Send(p); err != nil {
					errs <- "publish: " + err.Error()
					return
				}
			}
			if _, err := c.Barrier(); err != nil {
				errs <- "a well-formed client is no longer served: " + err.Error()
			}
		}(i)
	}
	time.Sleep(5 * time.Millisecond)
	close(start)
	wg.Wait()
	select {
	case m := <-errs:
		return m
	default:
		return ""
	}
}

func init() { vkit.RegisterWorker("c09", handle) }
