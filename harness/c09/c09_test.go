//go:build verif

// C09 — Hostile or malformed input cannot take the broker down.
// Every hostile input is executed by a broker in a re-executed child process under an address-space ceiling:
// the parent streams inputs and waits for one reply per input, so a death (panic on a goroutine nobody recovers,
// fatal out-of-memory) or a hang is attributed to exactly the unacknowledged input.
package c09

import (
	"bytes"
	"encoding/binary"
	"encoding/json"
	"fmt"
	"sort"
	"strings"
	"testing"
	"time"

	"github.com/eclipse/paho.mqtt.golang/packets"
	"github.com/emitter-io/emitter/internal/security"
	"github.com/emitter-io/emitter/internal/verif/vkit"
	"github.com/golang/snappy"
	"pgregory.net/rapid"
)

func TestMain(m *testing.M) { vkit.Main(m) }

// Case is one hostile input.
type Case struct {
	Kind   string `json:"kind"`
	Data   []byte `json:"data"`
	Note   string `json:"note"`
	Expect string `json:"expect,omitempty"` // "closed": the broker must refuse and close (oversize declarations)
	Benign bool   `json:"benign,omitempty"` // lengths truthful, shapes valid: must not abort (main search); otherwise hostile class
}

var lic = vkit.DetLicense(1, "c09")
var never = time.Unix(0, 0)
var keyAll = vkit.LicKey(lic, "#/", security.AllowAll&^security.AllowExtend, never, 4242)
var keyMaster = vkit.LicKey(lic, "", security.AllowMaster, never, 777)
var keyA = vkit.LicKey(lic, "a/#/", security.AllowAll&^security.AllowExtend, never, 99) // a depth-encoded, non-exact target

var extremes = []string{"0", "1", "5", "100", "100000000", "2147483647", "2147483648", "4294967295", "4294967296", "9223372036854775807", "9223372036854775808",
	"99999999999999999999", "1e309", "0x10", "007", "18446744073709551615"}

func pkt(p packets.ControlPacket) []byte {
	var b bytes.Buffer
	p.Write(&b)
	return b.Bytes()
}

func pub(topic string, payload string, qos byte, retain bool) []byte {
	p := packets.NewControlPacket(packets.Publish).(*packets.PublishPacket)
	p.Qos, p.MessageID, p.TopicName, p.Payload, p.Retain = qos, 9, topic, []byte(payload), retain
	return pkt(p)
}

func sub(topics ...string) []byte {
	p := packets.NewControlPacket(packets.Subscribe).(*packets.SubscribePacket)
	p.MessageID = 3
	p.Topics = topics
	p.Qoss = make([]byte, len(topics))
	return pkt(p)
}

func connect(will bool) []byte { return connectWill(will, keyAll+"/will/") }

func connectWill(will bool, topic string) []byte {
	c := packets.NewControlPacket(packets.Connect).(*packets.ConnectPacket)
	c.ProtocolName, c.ProtocolVersion, c.ClientIdentifier, c.CleanSession, c.Keepalive = "MQTT", 4, "attacker", true, 30
	c.UsernameFlag, c.Username = true, "mallory"
	if will {
		c.WillFlag, c.WillTopic, c.WillMessage = true, topic, []byte("bye")
	}
	return pkt(c)
}

// genPacket draws one request packet: valid shapes with (mostly) extreme parameters.
func genPacket(t *rapid.T) ([]byte, string) {
	x := func(l string) string { return rapid.SampledFrom(extremes).Draw(t, l) }
	switch k := rapid.IntRange(0, 19).Draw(t, "pk"); k {
	case 0:
		if rapid.IntRange(0, 2).Draw(t, "deepwill") == 0 {
			// the last will is published from the connection's deferred Close: a failure there is not recovered
			depth := rapid.SampledFrom([]int{1, 21, 22, 23, 24, 25, 40}).Draw(t, "willdepth")
			key := rapid.SampledFrom([]string{keyA, keyAll}).Draw(t, "willkey")
			return connectWill(true, key+"/a/"+strings.Repeat("l/", depth)+rapid.SampledFrom([]string{"", "?ttl=1&last", "#/"}).Draw(t, "willtail")), "connect-deep-will"
		}
		return connect(rapid.Bool().Draw(t, "will")), "connect"
	case 1:
		return sub(fmt.Sprintf("%s/a/b/?last=%s", keyAll, x("last"))), "sub-last"
	case 2:
		return sub(fmt.Sprintf("%s/a/b/?from=%s&until=%s&last=%s", keyAll, x("from"), x("until"), x("last"))), "sub-window"
	case 3:
		return pub(fmt.Sprintf("%s/a/b/?ttl=%s&me=%s", keyAll, x("ttl"), x("me")), "hello", byte(rapid.IntRange(0, 1).Draw(t, "qos")), rapid.Bool().Draw(t, "ret")), "pub-ttl"
	case 4:
		return pub("emitter/presence/", fmt.Sprintf(`{"key":"%s","channel":"a/","status":true,"changes":%v}`, keyAll, rapid.Bool().Draw(t, "ch")), 1, false), "presence"
	case 5:
		return pub("emitter/keygen/", fmt.Sprintf(`{"key":"%s","channel":"a/","type":"rwlspex","ttl":%s}`, keyMaster, x("ttl")), 1, false), "keygen-ttl"
	case 6:
		return pub("emitter/history/", fmt.Sprintf(`{"channel":"%s/a/b/?last=%s","startFromID":"%s"}`, keyAll, x("last"), rapid.SampledFrom([]string{"", "AAAA", "AA==", "AAAAAAA=", "AAAAAAAAAAAAAAAAAAAAAAAAAAA=", strings.Repeat("QUJD", 3000)}).Draw(t, "sfid")), 1, false), "history"
	case 7:
		return pub("emitter/link/", fmt.Sprintf(`{"name":"%s","key":"%s","channel":"%s","subscribe":true}`, rapid.SampledFrom([]string{"l1", "zz", "\\u0000", ""}).Draw(t, "ln"), keyAll,
			rapid.SampledFrom([]string{"a/", strings.Repeat("a/", 20000), "", "a/+/"}).Draw(t, "lch")), 1, false), "link"
	case 8:
		return pub("emitter/keyban/", fmt.Sprintf(`{"secret":"%s","target":"%s","banned":true}`, keyMaster, strings.Repeat("A", 32)), 1, false), "keyban"
	case 9:
		return pub("emitter/"+rapid.SampledFrom([]string{"me/", "unknown/", "", "presence/", "keygen/", "history/", "link/", "keyban/"}).Draw(t, "svc"),
			rapid.SampledFrom([]string{"{}", "[]", "null", `{"key":12,"channel":[],"type":{},"ttl":"x"}`, "", `{"channel":5}`, strings.Repeat("[", 5000)}).Draw(t, "json"), 1, false), "request-junk-json"
	case 10:
		key := rapid.SampledFrom([]string{keyAll, keyA}).Draw(t, "deepkey")
		depth := rapid.SampledFrom([]int{21, 22, 23, 24, 30, 1000, 30000}).Draw(t, "depth")
		if rapid.Bool().Draw(t, "deepsub") {
			return sub(key + "/" + strings.Repeat("a/", depth)), "sub-deep-channel"
		}
		return pub(key+"/"+strings.Repeat("a/", depth), "x", 1, false), "pub-deep-channel"
	case 11:
		n := rapid.SampledFrom([]int{100, 1000, 5000}).Draw(t, "ntopics")
		ts := make([]string, n)
		for i := range ts {
			ts[i] = fmt.Sprintf("%s/s%d/", keyAll, i)
		}
		if len(pkt0(ts)) > 65000 {
			ts = ts[:1400]
		}
		return sub(ts...), "sub-many-topics"
	case 12:
		p := packets.NewControlPacket(packets.Unsubscribe).(*packets.UnsubscribePacket)
		p.MessageID, p.Topics = 4, []string{keyAll + "/a/b/"}
		return pkt(p), "unsub"
	case 13:
		return pkt(packets.NewControlPacket(packets.Pingreq)), "ping"
	case 14:
		p := packets.NewControlPacket(packets.Puback).(*packets.PubackPacket)
		p.MessageID = 1
		return pkt(p), "client-sends-puback"
	case 15:
		return pkt(packets.NewControlPacket(packets.Connack)), "client-sends-connack"
	case 16:
		p := packets.NewControlPacket(packets.Suback).(*packets.SubackPacket)
		p.MessageID, p.ReturnCodes = 1, []byte{0}
		return pkt(p), "client-sends-suback"
	case 17:
		return pub(rapid.SampledFrom([]string{"l1", "zz", "", "/", "a", keyAll, keyAll + "/", keyAll + "//", keyAll + "/a/?", keyAll + "/a/?x", keyAll + "/a/?x=", keyAll + "/a/?ttl=1&last"}).Draw(t, "topic"), "x", 1, false), "pub-odd-topic"
	case 18:
		return pub(keyAll+"/a/b/", strings.Repeat("P", rapid.SampledFrom([]int{0, 60000, 65400}).Draw(t, "plen")), 1, rapid.Bool().Draw(t, "ret")), "pub-big-payload"
	default:
		return rapid.SliceOfN(rapid.Byte(), 0, 60).Draw(t, "random"), "random-bytes"
	}
}

func pkt0(ts []string) []byte { return sub(ts...) }

func genClient(t *rapid.T) Case {
	var stream []byte
	var notes []string
	c := Case{Kind: "client"}
	if rapid.IntRange(0, 3).Draw(t, "connectfirst") > 0 {
		stream = append(stream, connect(false)...)
		notes = append(notes, "connect")
	}
	if rapid.IntRange(0, 7).Draw(t, "oversize") == 0 {
		// well-formed packets, then one that declares more than the configured message size: must be refused
		for i, n := 0, rapid.IntRange(0, 2).Draw(t, "before"); i < n; i++ {
			p, note := genPacket(t)
			if note == "random-bytes" || note == "client-sends-connack" || note == "client-sends-suback" || note == "client-sends-puback" {
				continue
			}
			stream = append(stream, p...)
			notes = append(notes, note)
		}
		decl := rapid.SampledFrom([]int{65537, 100000, 1 << 20, 1<<28 - 1}).Draw(t, "decl")
		typ := byte(rapid.SampledFrom([]int{0x32, 0x82, 0x10, 0xa2, 0x40}).Draw(t, "otype"))
		stream = append(stream, append([]byte{typ}, encLen(decl)...)...)
		stream = append(stream, rapid.SliceOfN(rapid.Byte(), 0, 20).Draw(t, "body")...)
		c.Expect = "closed"
		c.Data, c.Note = stream, strings.Join(append(notes, fmt.Sprintf("type %#x declares %d bytes", typ, decl)), " | ")
		return c
	}
	for i, n := 0, rapid.IntRange(1, 5).Draw(t, "npkts"); i < n; i++ {
		p, note := genPacket(t)
		p = append([]byte(nil), p...)
		switch m := rapid.IntRange(0, 10).Draw(t, "mut"); {
		case m == 0 && len(p) > 0:
			k := rapid.IntRange(0, len(p)-1).Draw(t, "pos")
			p[k] ^= byte(rapid.IntRange(1, 255).Draw(t, "xor"))
			note += "+flip"
		case m == 1:
			p = p[:rapid.IntRange(0, len(p)).Draw(t, "cut")]
			note += "+truncated"
		case m == 2 && len(p) > 1:
			p[1] = byte(rapid.IntRange(0, 255).Draw(t, "len"))
			note += "+length-byte"
		case m == 3 && len(p) > 0:
			// remaining length replaced by a run of continuation bytes
			run := bytes.Repeat([]byte{0xff}, rapid.IntRange(1, 8).Draw(t, "run"))
			p = append(append([]byte{p[0]}, run...), 0x7f)
			note += "+length-continuation-run"
		case m == 4 && len(p) > 0:
			p[0] = byte(rapid.SampledFrom([]int{0x00, 0xf0, 0xff, 0x0f}).Draw(t, "type")) | p[0]&0x0f
			note += "+type"
		}
		stream = append(stream, p...)
		notes = append(notes, note)
	}
	c.Data, c.Note = stream, strings.Join(notes, " | ")
	return c
}

func encLen(n int) []byte {
	var out []byte
	for {
		d := byte(n % 128)
		n /= 128
		if n > 0 {
			d |= 0x80
		}
		out = append(out, d)
		if n == 0 {
			return out
		}
	}
}

// ---------------------------------------------------------------------------------------------
// cluster-port payloads: hand-rolled encoders of the wire formats (kelindar/binary + snappy), so that any
// field can be perturbed.

type wr struct{ bytes.Buffer }

func (w *wr) uvarint(v uint64) {
	var b [10]byte
	w.Write(b[:binary.PutUvarint(b[:], v)])
}
func (w *wr) str(b []byte) { w.uvarint(uint64(len(b))); w.Write(b) }

type kv struct{ k, v []byte }

// encState encodes a replicated-state payload: map[type]set, each set a list of (key, value) strings.
func encState(sets map[byte][]kv, lie func(what string, n uint64) uint64) []byte {
	var w wr
	w.uvarint(lie("map", uint64(len(sets))))
	var types []int
	for t := range sets {
		types = append(types, int(t))
	}
	sort.Ints(types)
	for _, t := range types {
		w.uvarint(uint64(t)) // uint8 map key, written as a uvarint by kelindar/binary
		w.uvarint(lie("count", uint64(len(sets[byte(t)]))))
		for _, e := range sets[byte(t)] {
			w.uvarint(lie("klen", uint64(len(e.k))))
			w.Write(e.k)
			w.uvarint(lie("vlen", uint64(len(e.v))))
			w.Write(e.v)
		}
	}
	return w.Bytes()
}

type msgSpec struct {
	id, ch, payload []byte
	ttl             uint64
}

func encFrame(ms []msgSpec, lie func(what string, n uint64) uint64) []byte {
	var w wr
	w.uvarint(lie("count", uint64(len(ms))))
	for _, m := range ms {
		w.uvarint(lie("idlen", uint64(len(m.id))))
		w.Write(m.id)
		w.uvarint(lie("chlen", uint64(len(m.ch))))
		w.Write(m.ch)
		w.uvarint(lie("plen", uint64(len(m.payload))))
		w.Write(m.payload)
		w.uvarint(m.ttl)
	}
	return w.Bytes()
}

func truth(string, uint64) func(string, uint64) uint64 { return nil }

func be64(v uint64) []byte { var b [8]byte; binary.BigEndian.PutUint64(b[:], v); return b[:] }
func be32(v uint32) []byte { var b [4]byte; binary.BigEndian.PutUint32(b[:], v); return b[:] }

// genCluster draws a payload for one of the cluster-port entry points. benign: lengths truthful and every key /
// value / id at least as long as its fixed part; hostile: one field perturbed.
func genCluster(hostile bool) func(t *rapid.T) Case {
	return func(t *rapid.T) Case {
		c := Case{Benign: !hostile}
		honest := func(_ string, n uint64) uint64 { return n }
		lie := honest
		var notes []string
		liedAbout := ""
		if hostile && rapid.IntRange(0, 2).Draw(t, "lie") == 0 {
			target := rapid.SampledFrom([]string{"map", "count", "klen", "vlen", "idlen", "chlen", "plen"}).Draw(t, "liefield")
			val := rapid.SampledFrom([]uint64{0, 1, 3, 1 << 16, 1 << 24, 1 << 31, 1 << 40, 1<<63 - 1}).Draw(t, "lieval")
			done := false
			lie = func(what string, n uint64) uint64 {
				if what == target && !done {
					done = true
					return val
				}
				return n
			}
			liedAbout = fmt.Sprintf("length-prefix %s=%d", target, val)
		}
		short := func(l string, min int) int { // how long a fixed-size part is made
			if hostile && rapid.IntRange(0, 2).Draw(t, l+"short") == 0 {
				return rapid.IntRange(0, min-1).Draw(t, l+"len")
			}
			return min + 4*rapid.IntRange(0, 3).Draw(t, l+"extra")
		}
		rnd := func(l string, n int) []byte {
			if n <= 0 {
				return nil
			}
			return rapid.SliceOfN(rapid.Byte(), n, n).Draw(t, l)
		}
		switch kind := rapid.SampledFrom([]string{"gossip", "broadcast", "unicast", "unicast", "survey-ssd", "survey-presence", "message"}).Draw(t, "entry"); kind {
		case "gossip", "broadcast":
			c.Kind = kind
			sets := map[byte][]kv{}
			for i, n := 0, rapid.IntRange(0, 4).Draw(t, "entries"); i < n; i++ {
				typ := byte(rapid.SampledFrom([]int{0, 0, 1, 2, 7}).Draw(t, "type"))
				var k []byte
				switch typ {
				case 0:
					kl := short("subkey", 20)
					k = append(append(be64(uint64(rapid.SampledFrom([]int{1, 77, 99}).Draw(t, "peer"))), be64(5)...), rnd("ssid", kl-16)...)
					if len(k) > kl {
						k = k[:kl]
					}
				case 2:
					k = rnd("connkey", short("connkey", 16))
				default:
					k = rnd("bankey", rapid.IntRange(0, 40).Draw(t, "banlen"))
				}
				vl := short("value", 16)
				v := append(append(be64(uint64(rapid.IntRange(0, 9).Draw(t, "add"))), be64(uint64(rapid.IntRange(0, 9).Draw(t, "del")))...), rnd("vpayload", rapid.SampledFrom([]int{0, 0, 2, 9}).Draw(t, "vpl"))...)
				if len(v) > vl && vl < 16 {
					v = v[:vl]
				}
				sets[typ] = append(sets[typ], kv{k, v})
			}
			raw := encState(sets, lie)
			notes = append(notes, fmt.Sprintf("state with %d sets", len(sets)))
			c.Data = snappy.Encode(nil, raw)
		case "unicast":
			c.Kind = kind
			var ms []msgSpec
			for i, n := 0, rapid.IntRange(0, 3).Draw(t, "msgs"); i < n; i++ {
				il := short("id", 24)
				id := append(append(rnd("idhead", 16), be32(lic.Contract())...), rnd("idssid", 12)...)
				if rapid.IntRange(0, 3).Draw(t, "survey") == 0 { // a survey request / response
					id = append(append(rnd("idhead", 16), be32(0)...), append(be32(3939663052), be32(uint32(rapid.IntRange(0, 3).Draw(t, "qid")))...)...)
				}
				if len(id) > il {
					id = id[:il]
				}
				ch := rapid.SampledFrom([]string{"a/b/", "response", "ssdstore/77", "presence/77", "ssdstore/abc", "x/1/2"}).Draw(t, "ch")
				if hostile {
					ch = rapid.SampledFrom([]string{"a/b/", "response", "ssdstore/77", "presence", "ssdstore", "", "/", "x/99999999999999999999"}).Draw(t, "hch")
				}
				ms = append(ms, msgSpec{id: id, ch: []byte(ch), payload: rnd("payload", rapid.SampledFrom([]int{0, 1, 8, 40}).Draw(t, "pl")), ttl: uint64(rapid.IntRange(0, 100).Draw(t, "ttl"))})
			}
			c.Data = snappy.Encode(nil, encFrame(ms, lie))
			notes = append(notes, fmt.Sprintf("frame of %d", len(ms)))
		case "survey-ssd":
			c.Kind = kind
			// lookupQuery{Ssid []uint32, From, Until int64, StartFromID []byte, Limit int}
			var w wr
			n := rapid.IntRange(0, 4).Draw(t, "ssidwords")
			if !hostile && n < 2 {
				n = 2
			}
			w.uvarint(lie("count", uint64(n)))
			for i := 0; i < n; i++ {
				w.uvarint(uint64(rapid.Uint32().Draw(t, "w")))
			}
			w.uvarint(uint64(rapid.IntRange(0, 100).Draw(t, "from")))  // zig-zag varints of small values
			w.uvarint(uint64(rapid.IntRange(0, 100).Draw(t, "until"))) //
			w.str(rnd("startid", rapid.SampledFrom([]int{0, 0, 8, 28, 1, 3, 7, 15, 19, 20}).Draw(t, "sid")))
			lim := uint64(rapid.IntRange(0, 50).Draw(t, "limit")) * 2
			if hostile {
				lim = rapid.SampledFrom([]uint64{0, 1, 2, 1 << 31, 1 << 62, 1<<64 - 1}).Draw(t, "hlimit")
			}
			w.uvarint(lim)
			c.Data = w.Bytes()
			notes = append(notes, "lookup query")
		case "survey-presence":
			c.Kind = kind
			var w wr
			n := rapid.IntRange(0, 4).Draw(t, "ssidwords")
			if !hostile && n < 1 {
				n = 1
			}
			w.uvarint(lie("count", uint64(n)))
			for i := 0; i < n; i++ {
				w.uvarint(uint64(rapid.Uint32().Draw(t, "w")))
			}
			c.Data = w.Bytes()
			notes = append(notes, "presence ssid")
		default:
			c.Kind = "message"
			m := msgSpec{id: rnd("id", short("id", 16)), ch: []byte("a/"), payload: rnd("p", 5)}
			c.Data = snappy.Encode(nil, encFrame([]msgSpec{m}, lie)[1:])
			notes = append(notes, "single message")
		}
		if hostile {
			switch rapid.IntRange(0, 7).Draw(t, "outer") {
			case 0:
				c.Data = c.Data[:rapid.IntRange(0, len(c.Data)).Draw(t, "cut")]
				notes = append(notes, "truncated")
			case 1:
				// snappy header claims a huge decoded length
				c.Data = append(encLen32(rapid.SampledFrom([]uint64{1 << 20, 1 << 30, 1<<32 - 1}).Draw(t, "claim")), rnd("tail", 8)...)
				notes = append(notes, "snappy header claims a huge block")
			case 2:
				c.Data = rnd("garbage", rapid.IntRange(0, 40).Draw(t, "glen"))
				notes = append(notes, "random bytes")
			}
		}
		if liedAbout != "" {
			notes = append(notes, liedAbout)
		}
		c.Note = strings.Join(notes, ", ")
		return c
	}
}

func encLen32(v uint64) []byte {
	var b [10]byte
	return append([]byte{}, b[:binary.PutUvarint(b[:], v)]...)
}

// ---------------------------------------------------------------------------------------------

var worker *vkit.Worker

const allocPerByte, allocSlack = 4096, 16 << 20 // calibrated: a SUBSCRIBE costs ~1.2 KB of allocation per input byte (trie nodes, history iterator); x3 margin

func execute(c Case) vkit.Result {
	if worker == nil || !worker.Alive() {
		w, err := vkit.StartWorker("c09", 3000000)
		if err != nil {
			panic(err)
		}
		worker = w
	}
	in, _ := json.Marshal(Req{Kind: c.Kind, Data: c.Data, ExpectClosed: c.Expect == "closed"})
	out, err := worker.Do(in, 300*time.Second)
	labels := []string{"entry-" + c.Kind}
	if err != nil {
		d, ok := err.(*vkit.Died)
		if !ok {
			panic(err)
		}
		what := "the broker process exits"
		if d.Hang {
			what = "the broker process hangs"
		}
		r := vkit.Failf("%s input (%d bytes: %s) -> %s: %s; frames %v", c.Kind, len(c.Data), c.Note, what, d.Summary(), first(d.Frames(), 6))
		if d.Hang && (c.Kind == "gossip" || c.Kind == "broadcast" || c.Kind == "unicast") && !truthfulLengths(c) {
			// a payload whose size claims lie and that keeps the child busy past the ceiling (allocating / zeroing gigabytes on a
			// loaded machine) is the listed length-prefix finding, not a new hang
			r.Finding = "C09-cluster-length-prefix"
		}
		if !d.Hang && c.Kind != "client" {
			site := d.TopFrame()
			sum := d.Summary()
			lengthClass := d.OOM() || strings.Contains(sum, "slice bounds out of range [:-") || strings.Contains(sum, "allocation size out of range") ||
				(strings.Contains(sum, "makeslice") && site != "message.ID.Ssid")
			// the listed finding is about size claims that lie; a payload whose lengths are all truthful and that still
			// aborts the broker (an extreme VALUE such as a limit or a time) is something else
			if lengthClass && !truthfulLengths(c) { // a length prefix / size claim of the payload was trusted: one root cause, many surface sites
				r.Finding = "C09-cluster-length-prefix"
			} else if site != "" {
				r.Finding = "C09-cluster-abort@" + site
			}
		}
		r.Labels = labels
		return r
	}
	var rs Resp
	if err := json.Unmarshal(out, &rs); err != nil {
		panic(err)
	}
	if rs.Canary != "" {
		worker.Stop()
		return vkit.Failf("%s input (%d bytes: %s): a client connected at the same time is no longer served correctly: %s", c.Kind, len(c.Data), c.Note, rs.Canary)
	}
	if c.Expect == "closed" && !rs.Closed {
		return vkit.Failf("client input (%s): a packet declaring more than the configured message size was not refused (connection still open)", c.Note)
	}
	if bound := uint64(allocPerByte*len(c.Data) + allocSlack); rs.Alloc > bound && c.Kind != "clients" {
		r := vkit.Failf("%s input of %d bytes (%s) made the broker allocate %d bytes (bound %d)", c.Kind, len(c.Data), c.Note, rs.Alloc, bound)
		if c.Kind != "client" {
			r.Finding = "C09-cluster-length-prefix"
		}
		return r
	}
	if rs.Closed {
		labels = append(labels, "connection-closed")
	}
	if c.Expect == "closed" {
		labels = append(labels, "oversize-refused")
	}
	nontrivial := len(c.Data) > 2
	if c.Kind == "clients" {
		nontrivial = true
		labels = append(labels, "concurrent-well-formed-clients")
	} else if c.Kind != "client" {
		nontrivial = strings.Contains(rs.Ret, "err=<nil>") || strings.Contains(rs.Ret, "ok=true")
		if nontrivial {
			labels = append(labels, "payload-decoded")
		}
	}
	vkit.Label("max-alloc-bucket:"+bucket(rs.Alloc), 1)
	return vkit.Result{NonTrivial: nontrivial, Labels: labels}
}

func truthfulLengths(c Case) bool {
	switch c.Kind {
	case "unicast":
		raw, ok := unsnappy(c.Data)
		if !ok || !lengthsOK(c.Data, true) {
			return false
		}
		// survey traffic carried by the frame: the handler's own payload format must be truthful as well
		r := &rd{b: raw, ok: true}
		n := r.uvarint()
		for i := uint64(0); r.ok && i < n; i++ {
			id := r.bytes(r.uvarint())
			ch := r.bytes(r.uvarint())
			payload := r.bytes(r.uvarint())
			r.uvarint()
			if r.ok && len(id) >= 20 && binary.BigEndian.Uint32(id[16:20]) == 0 {
				switch {
				case strings.HasPrefix(string(ch), "ssdstore"):
					if !truthfulQuery(payload, true) {
						return false
					}
				case strings.HasPrefix(string(ch), "presence"):
					if !truthfulQuery(payload, false) {
						return false
					}
				}
			}
		}
		return r.ok
	case "survey-ssd":
		return truthfulQuery(c.Data, true)
	case "survey-presence":
		return truthfulQuery(c.Data, false)
	case "message":
		raw, ok := unsnappy(c.Data)
		if !ok {
			return false
		}
		r := &rd{b: raw, ok: true}
		r.bytes(r.uvarint())
		r.bytes(r.uvarint())
		r.bytes(r.uvarint())
		r.uvarint()
		return r.ok
	}
	return lengthsOK(c.Data, false)
}

// truthfulQuery: a survey request (lookupQuery{Ssid, From, Until, StartFromID, Limit} or a bare ssid) whose element
// count and byte-string length are within the data. The VALUES it carries (limit, times, ssid words) may be anything.
func truthfulQuery(data []byte, lookup bool) bool {
	r := &rd{b: data, ok: true}
	n := r.uvarint()
	if !r.ok || n > uint64(len(data)) {
		return false
	}
	for i := uint64(0); i < n; i++ {
		r.uvarint()
	}
	if lookup {
		r.uvarint()
		r.uvarint()
		r.bytes(r.uvarint())
		r.uvarint()
	}
	return r.ok
}

// lengthsOK: the snappy header claims at most 1 MiB and every length prefix of the payload is within the data.
func lengthsOK(data []byte, frame bool) bool {
	raw, ok := unsnappy(data)
	if !ok {
		return false
	}
	r := &rd{b: raw, ok: true}
	if frame {
		n := r.uvarint()
		for i := uint64(0); r.ok && i < n && i < 1<<16; i++ {
			r.bytes(r.uvarint())
			r.bytes(r.uvarint())
			r.bytes(r.uvarint())
			r.uvarint()
		}
		return r.ok && n <= 1<<16
	}
	nmap := r.uvarint()
	for i := uint64(0); r.ok && i < nmap && i < 256; i++ {
		r.uvarint()
		count := r.uvarint()
		for j := uint64(0); r.ok && j < count && j < 1<<16; j++ {
			r.bytes(r.uvarint())
			r.bytes(r.uvarint())
		}
		if count > 1<<16 {
			return false
		}
	}
	return r.ok && nmap <= 256
}

func bucket(n uint64) string {
	switch {
	case n < 1<<16:
		return "<64KiB"
	case n < 1<<20:
		return "<1MiB"
	case n < 1<<24:
		return "<16MiB"
	}
	return ">=16MiB"
}

func first(s []string, n int) []string {
	if len(s) > n {
		return s[:n]
	}
	return s
}

func stop() {
	if worker != nil {
		worker.Stop()
		worker = nil
	}
}

// genClients: several well-formed clients at once - plain, wildcard and share-group subscribers of the channels
// they all publish to. Nothing they send is hostile; the broker must simply survive the concurrency.
func genClients(t *rapid.T) Case {
	sp := ClientsSpec{Clients: rapid.IntRange(2, 8).Draw(t, "clients"), Msgs: rapid.SampledFrom([]int{20, 100, 300}).Draw(t, "msgs"), Size: rapid.SampledFrom([]int{0, 10, 2000}).Draw(t, "size")}
	for i, n := 0, rapid.IntRange(1, 4).Draw(t, "nfilters"); i < n; i++ {
		sp.Filters = append(sp.Filters, rapid.SampledFrom([]string{"NS/x0/", "NS/", "NS/+/", "$share/g1/NS/x0/", "$share/g1/NS/", "$share/g2/NS/x1/", "$share/g2/NS/+/"}).Draw(t, "filter"))
	}
	if rapid.IntRange(0, 3).Draw(t, "big") == 0 {
		sp.Big = rapid.SampledFrom([]int{65520, 65526, 65528, 65530, 65532}).Draw(t, "bigsize")
	}
	d, _ := json.Marshal(sp)
	return Case{Kind: "clients", Data: d, Note: fmt.Sprintf("%d concurrent well-formed clients, filters %v, %d publishes each, %d bytes through a shortcut", sp.Clients, sp.Filters, sp.Msgs, sp.Big), Benign: true}
}

func TestClientPort(t *testing.T)        { vkit.Check(t, genClient, execute); stop() }
func TestConcurrentClients(t *testing.T) { vkit.Check(t, genClients, execute); stop() }
func TestClusterBenign(t *testing.T)     { vkit.Check(t, genCluster(false), execute); stop() }
func TestClusterHostile(t *testing.T)    { vkit.Check(t, genCluster(true), execute); stop() }

// TestProbes replays one saved minimal input per listed finding, so that each KNOWN-FINDING line is printed exactly
// while the defect is still there.
func TestProbes(t *testing.T) {
	honest := func(_ string, n uint64) uint64 { return n }
	v16 := append(be64(1), be64(0)...)
	subKey := func(n int) []byte {
		k := append(append(be64(77), be64(5)...), be32(1)...)
		return k[:n]
	}
	state := func(typ byte, k, v []byte) []byte {
		return snappy.Encode(nil, encState(map[byte][]kv{typ: {{k, v}}}, honest))
	}
	surveyID := append(append(make([]byte, 16), be32(0)...), append(be32(3939663052), be32(1)...)...)
	full := state(0, subKey(20), v16)
	probes := []struct {
		id string
		c  Case
	}{
		{"C09-cluster-abort@event.decodeSubscription", Case{Kind: "broadcast", Data: state(0, subKey(3), v16), Note: "subscription key of 3 bytes"}},
		{"C09-cluster-abort@event/crdt.Value.AddTime", Case{Kind: "broadcast", Data: state(1, []byte("k"), []byte{1, 2, 3}), Note: "value of 3 bytes"}},
		{"C09-cluster-abort@event/crdt.Value.DelTime", Case{Kind: "broadcast", Data: state(1, []byte("k"), append(be64(0), 1, 2)), Note: "value of 10 bytes"}},
		{"C09-cluster-abort@event/crdt.(*Durable).Merge", Case{Kind: "broadcast", Data: snappy.Encode(nil, encState(map[byte][]kv{0: {{subKey(20), v16}}}, honest)[:6]), Note: "state cut inside the first entry"}},
		{"C09-cluster-abort@message.ID.Ssid", Case{Kind: "unicast", Data: snappy.Encode(nil, encFrame([]msgSpec{{id: []byte{1, 2, 3}, ch: []byte("a/")}}, honest)), Note: "message id of 3 bytes"}},
		{"C09-cluster-abort@message.(*Trie).Lookup", Case{Kind: "survey-presence", Data: []byte{0}, Note: "presence survey for an empty ssid"}},
		{"C09-cluster-abort@message.Ssid.GetHashCode", Case{Kind: "broadcast", Data: state(0, subKey(16), v16), Note: "subscription key of exactly 16 bytes"}},
		{"C09-cluster-abort@service/survey.(*Surveyor).onRequest", Case{Kind: "unicast", Data: snappy.Encode(nil, encFrame([]msgSpec{{id: surveyID, ch: []byte("ssdstore")}}, honest)), Note: "survey request on channel 'ssdstore' (no reply address)"}},
		{"C09-cluster-length-prefix", Case{Kind: "gossip", Data: append(encLen32(1<<32-1), 0, 1, 2), Note: "snappy header claims 4 GiB"}},
	}
	_ = full
	for _, p := range probes {
		r := execute(p.c)
		vkit.Probe(p.id, r.Fail != "" && r.Finding == p.id, r.Fail)
		if r.Fail != "" && r.Finding != p.id {
			vkit.ReportFailure(t.Name(), p.c, "probe of "+p.id+" fails differently: "+r.Fail, r.Finding)
			t.Errorf("probe %s: %s [%s]", p.id, r.Fail, r.Finding)
		}
	}
	stop()
}
