//go:build verif

package c09

import (
	"encoding/binary"
	"fmt"
	"runtime/debug"
	"strings"
	"testing"

	"github.com/emitter-io/emitter/internal/verif/vkit"
	"github.com/golang/snappy"
	"github.com/weaveworks/mesh"
)

// Native fuzzing "behind the findings": the targets first parse the payload with a strict reference parser of the wire
// format and only hand it to the broker when every length prefix is truthful - i.e. when it lies outside the one listed
// finding that remains (trusted length prefixes). Short keys, values and ids are in scope since the corresponding
// defects were repaired. Whatever passes that filter must be handled without
// a panic (the call runs on the fuzz goroutine, so a panic is observable), and the canary must keep being served.

type rd struct {
	b  []byte
	ok bool
}

func (r *rd) uvarint() uint64 {
	v, n := binary.Uvarint(r.b)
	if n <= 0 {
		r.ok = false
		return 0
	}
	r.b = r.b[n:]
	return v
}

func (r *rd) bytes(n uint64) []byte {
	if !r.ok || n > uint64(len(r.b)) {
		r.ok = false
		return nil
	}
	out := r.b[:n]
	r.b = r.b[n:]
	return out
}

func unsnappy(data []byte) ([]byte, bool) {
	n, err := snappy.DecodedLen(data)
	if err != nil || n > 1<<20 {
		return nil, false
	}
	raw, err := snappy.Decode(nil, data)
	return raw, err == nil
}

// strictState: a state payload with truthful lengths and minimum sizes.
func strictState(data []byte) bool {
	raw, ok := unsnappy(data)
	if !ok {
		return false
	}
	r := &rd{b: raw, ok: true}
	nmap := r.uvarint()
	if !r.ok || nmap > 8 {
		return false
	}
	for i := uint64(0); i < nmap; i++ {
		typ := r.uvarint() // kelindar/binary writes the uint8 map key as a uvarint
		if !r.ok || typ > 255 {
			return false
		}
		tb := []byte{byte(typ)}
		count := r.uvarint()
		if !r.ok || count > uint64(len(r.b)) {
			return false
		}
		for j := uint64(0); j < count; j++ {
			k := r.bytes(r.uvarint())
			v := r.bytes(r.uvarint())
			if !r.ok {
				return false
			}
			_ = k
			switch tb[0] {
			case 0:
				// value payload of a subscription: binary-encoded {User, Channel}: two length-prefixed strings, or empty
				if len(v) > 16 {
					p := v[16:]
					pr := &rd{b: p, ok: true}
					pr.bytes(pr.uvarint())
					pr.bytes(pr.uvarint())
					if !pr.ok {
						return false
					}
				}
			}
		}
	}
	return r.ok && len(r.b) == 0
}

// strictFrame: a frame with truthful lengths whose message ids carry at least contract + one ssid word, and that is
// not a cluster survey (those go to handlers with their own payload formats).
func strictFrame(data []byte) bool {
	raw, ok := unsnappy(data)
	if !ok {
		return false
	}
	r := &rd{b: raw, ok: true}
	n := r.uvarint()
	if !r.ok || n > uint64(len(r.b)) {
		return false
	}
	for i := uint64(0); i < n; i++ {
		id := r.bytes(r.uvarint())
		r.bytes(r.uvarint())
		r.bytes(r.uvarint())
		r.uvarint()
		if !r.ok {
			return false
		}
		if len(id) >= 20 && binary.BigEndian.Uint32(id[16:20]) == 0 {
			return false // system contract: survey traffic (handlers with their own, length-prefixed payload formats)
		}
	}
	return r.ok && len(r.b) == 0
}

var fuzzEnv *childEnv

func fuzzBroker() *childEnv {
	if fuzzEnv == nil {
		vkit.Quiet()
		child = nil
		fuzzEnv = childInit()
	}
	return fuzzEnv
}

func guarded(t *testing.T, what string, data []byte, f func()) {
	defer func() {
		if p := recover(); p != nil {
			fuzzEnv = nil // never reuse a broker a panic passed through
			st := string(debug.Stack())
			var frames []string
			for _, l := range strings.Split(st, "\n") {
				if strings.Contains(l, "emitter/internal/") && !strings.Contains(l, "internal/verif/") && !strings.HasPrefix(l, "\t") {
					frames = append(frames, strings.TrimPrefix(strings.Split(l, "(0x")[0], "github.com/emitter-io/emitter/internal/"))
				}
			}
			t.Fatalf("%s payload with truthful lengths and minimum sizes (%d bytes) panics: %v; frames %v", what, len(data), p, frames)
		}
	}()
	f()
}

func FuzzGossipState(f *testing.F) {
	honest := func(_ string, n uint64) uint64 { return n }
	v16 := append(be64(1), be64(0)...)
	key := append(append(be64(77), be64(5)...), be32(1)...)
	f.Add(snappy.Encode(nil, encState(map[byte][]kv{0: {{key, v16}}}, honest)))
	f.Add(snappy.Encode(nil, encState(map[byte][]kv{0: {{append(key, be32(2)...), append(v16, 1, 'u', 2, 'a', '/')}}, 1: {{[]byte("banned-key"), append(be64(3), be64(9)...)}}, 2: {{key[:16], v16}}}, honest)))
	f.Add(snappy.Encode(nil, encState(map[byte][]kv{}, honest)))
	f.Fuzz(func(t *testing.T, data []byte) {
		if len(data) > 4096 || !strictState(data) {
			return
		}
		e := fuzzBroker()
		guarded(t, "gossip state", data, func() {
			e.b.S.VerifSwarm().OnGossip(data)
			e.b.S.VerifSwarm().OnGossipBroadcast(mesh.PeerName(78), data)
		})
		if msg := e.canaryLoop(); msg != "" {
			fuzzEnv = nil
			t.Fatalf("after a well-formed gossip payload the canary is not served: %s", msg)
		}
		vkit.RecordRaw("FuzzGossipState", data, vkit.OK(true, "fuzz-state-accepted"))
	})
}

func FuzzFrame(f *testing.F) {
	honest := func(_ string, n uint64) uint64 { return n }
	id := append(append(make([]byte, 16), be32(lic.Contract())...), be32(7)...)
	f.Add(snappy.Encode(nil, encFrame([]msgSpec{{id: id, ch: []byte("a/b/"), payload: []byte("hello"), ttl: 5}}, honest)))
	f.Add(snappy.Encode(nil, encFrame([]msgSpec{{id: append(id, be32(8)...), ch: []byte("x/"), payload: nil}, {id: id, ch: []byte("a/")}}, honest)))
	f.Add(snappy.Encode(nil, encFrame(nil, honest)))
	f.Fuzz(func(t *testing.T, data []byte) {
		if len(data) > 4096 || !strictFrame(data) {
			return
		}
		e := fuzzBroker()
		guarded(t, "frame", data, func() { e.b.S.VerifSwarm().OnGossipUnicast(mesh.PeerName(78), data) })
		if msg := e.canaryLoop(); msg != "" {
			fuzzEnv = nil
			t.Fatalf("after a well-formed frame the canary is not served: %s", msg)
		}
		vkit.RecordRaw("FuzzFrame", data, vkit.OK(true, "fuzz-frame-accepted"))
	})
}

var _ = fmt.Sprint
