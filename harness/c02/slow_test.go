//go:build verif

package c02

// A subscriber that is slow to read: it holds an acknowledged subscription, stops reading its socket for a few seconds
// while matching messages are published, then reads again. A slow consumer is still a subscriber: it must receive
// every one of those messages, whole, in order and once (the broker gives a peer 120 s before it gives up on it).

import (
	"fmt"
	"testing"
	"time"

	"github.com/emitter-io/emitter/internal/security"
	"github.com/emitter-io/emitter/internal/verif/vkit"
	"pgregory.net/rapid"
)

// SlowCase: how long the subscriber stalls, how many messages are published meanwhile and how big they are.
type SlowCase struct {
	StallMs int   `json:"stall_ms"`
	Sizes   []int `json:"sizes"`
	Others  int   `json:"others"` // further subscribers of the same channel that read normally
}

func genSlow(t *rapid.T) SlowCase {
	return SlowCase{StallMs: rapid.SampledFrom([]int{3500, 4500, 6500}).Draw(t, "stall"),
		Sizes:  rapid.SliceOfN(rapid.SampledFrom([]int{1, 20, 3000, 40000}), 2, 5).Draw(t, "sizes"),
		Others: rapid.IntRange(0, 2).Draw(t, "others")}
}

func runSlow(c SlowCase) vkit.Result {
	b, err := vkit.NewBroker(vkit.BrokerOpts{})
	if err != nil {
		panic(err)
	}
	defer b.Close()
	key := b.Key("#/", security.AllowReadWrite)
	slow, pub := b.Attach("slow"), b.Attach("publisher")
	var all []*vkit.Client
	for i := 0; i < c.Others; i++ {
		all = append(all, b.Attach(fmt.Sprintf("other%d", i)))
	}
	all = append(all, slow)
	for i, cl := range append(append([]*vkit.Client{}, all...), pub) {
		if err := cl.Connect(fmt.Sprintf("slow-%d", i), "", nil); err != nil {
			return vkit.Failf("connect: %v", err)
		}
	}
	for _, cl := range all {
		if codes, _, err := cl.Subscribe(1, key+"/s/"); err != nil || codes[0] == 0x80 {
			return vkit.Failf("subscribe: %v %v", codes, err)
		}
	}
	slow.Pause()
	done := make(chan error, 1)
	go func() {
		for i, n := range c.Sizes {
			payload := make([]byte, n)
			for j := range payload {
				payload[j] = byte('a' + (i+j)%26)
			}
			if _, err := pub.Publish(uint16(10+i), key+"/s/", payload, false); err != nil {
				done <- fmt.Errorf("publish %d: %v", i, err)
				return
			}
		}
		done <- nil
	}()
	time.Sleep(time.Duration(c.StallMs) * time.Millisecond)
	slow.Resume()
	if err := <-done; err != nil {
		return vkit.Failf("%v", err)
	}
	for k, cl := range all {
		got, err := cl.Barrier()
		if err != nil {
			return vkit.Failf("subscriber %d after the stall: %v", k, err)
		}
		who := "a subscriber that reads normally"
		if cl == slow {
			who = fmt.Sprintf("the subscriber that did not read for %d ms", c.StallMs)
		}
		if len(got) != len(c.Sizes) {
			return vkit.Failf("%s received %d of the %d matching messages published while it held its subscription", who, len(got), len(c.Sizes))
		}
		for i, p := range got {
			if len(p.Payload) != c.Sizes[i] || (len(p.Payload) > 0 && p.Payload[0] != byte('a'+i%26)) || p.TopicName != "s/" {
				return vkit.Failf("%s: message %d arrived as %d bytes on %q, %d bytes were published", who, i, len(p.Payload), p.TopicName, c.Sizes[i])
			}
		}
	}
	return vkit.OK(true, fmt.Sprintf("stall-%dms", c.StallMs))
}

func TestSlowSubscriber(t *testing.T) { vkit.Check(t, genSlow, runSlow) }
