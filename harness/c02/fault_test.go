//go:build verif

package c02

// One connection on a scripted socket (vkit.FaultConn): subscribes, unsubscribes and publishes to channels its own
// filters match, so that the broker owes it a deterministic sequence of packets. One write of that sequence fails
// (a transient failure, e.g. an expired write deadline). Either the broker ends the connection - or the connection
// lives on, and then it must still be sent every other packet: an acknowledged subscription keeps receiving every
// matching publish until it is removed.

import (
	"bytes"
	"encoding/json"
	"fmt"
	"testing"

	"github.com/eclipse/paho.mqtt.golang/packets"
	"github.com/emitter-io/emitter/internal/verif/vkit"
	"pgregory.net/rapid"
)

// FOp is one request of the single client: sub / unsub a filter, pub to a channel.
type FOp struct {
	K string `json:"k"`
	F string `json:"f"`
}

// FCase is the session.
type FCase struct {
	MQTT bool  `json:"mqtt,omitempty"`
	Ops  []FOp `json:"ops"`
}

func genFCase(t *rapid.T) FCase {
	c := FCase{MQTT: rapid.IntRange(0, 4).Draw(t, "mqtt") == 0}
	filters := []string{"a/b/", "b/a/", "a/", "a/+/", "+/b/", "a/b/x/", "x/y/"}
	chans := []string{"a/b/", "b/a/", "a/b/x/", "a/", "x/y/"}
	var live []string
	for i, n := 0, rapid.IntRange(2, 12).Draw(t, "nops"); i < n; i++ {
		switch k := rapid.IntRange(0, 9).Draw(t, "kind"); {
		case k < 3 || len(live) == 0:
			f := rapid.SampledFrom(filters).Draw(t, "f")
			live = append(live, f)
			c.Ops = append(c.Ops, FOp{"sub", f})
		case k < 4:
			c.Ops = append(c.Ops, FOp{"unsub", rapid.SampledFrom(live).Draw(t, "uf")})
		default:
			ch := rapid.SampledFrom(chans).Draw(t, "ch")
			if rapid.Bool().Draw(t, "exact") { // publish exactly to a held filter's text when it is a channel
				if f := rapid.SampledFrom(live).Draw(t, "lf"); inList(chans, f) {
					ch = f
				}
			}
			c.Ops = append(c.Ops, FOp{"pub", ch})
		}
	}
	return c
}

func runFCase(c FCase) vkit.Result {
	b := theBroker(c.MQTT)
	fail := func(format string, a ...interface{}) vkit.Result {
		shared = nil
		return vkit.Failf(format, a...)
	}
	if n, _, _ := b.S.VerifTrie().VerifDump(); n != 1 {
		return fail("harness: shared broker index not empty at the start of the case")
	}
	var stream bytes.Buffer
	cp := packets.NewControlPacket(packets.Connect).(*packets.ConnectPacket)
	cp.ProtocolName, cp.ProtocolVersion, cp.ClientIdentifier, cp.CleanSession, cp.Keepalive = "MQTT", 4, "fault-client", true, 30
	cp.Write(&stream)
	for i, op := range c.Ops {
		id := uint16(i + 1)
		switch op.K {
		case "sub":
			p := packets.NewControlPacket(packets.Subscribe).(*packets.SubscribePacket)
			p.MessageID, p.Topics, p.Qoss = id, []string{keys["rw"] + "/" + op.F}, []byte{0}
			p.Write(&stream)
		case "unsub":
			p := packets.NewControlPacket(packets.Unsubscribe).(*packets.UnsubscribePacket)
			p.MessageID, p.Topics = id, []string{keys["rw"] + "/" + op.F}
			p.Write(&stream)
		case "pub":
			p := packets.NewControlPacket(packets.Publish).(*packets.PublishPacket)
			p.Qos, p.MessageID, p.TopicName, p.Payload = 1, id, keys["rw"]+"/"+op.F, []byte(fmt.Sprintf("m%d", i))
			p.Write(&stream)
		}
	}
	// expected packets of the fault-free session, from the model: CONNACK, then per request its deliveries and its ack
	want := []string{"CONNACK 0"}
	held := map[string]bool{}
	selfDeliveries := 0
	for i, op := range c.Ops {
		id := i + 1
		switch op.K {
		case "sub":
			held[op.F] = true
			want = append(want, fmt.Sprintf("SUBACK %d [0]", id))
		case "unsub":
			delete(held, op.F)
			want = append(want, fmt.Sprintf("UNSUBACK %d", id))
		case "pub":
			for f := range held {
				if vkit.MatchStr(c.MQTT, f, op.F) {
					want = append(want, fmt.Sprintf("PUBLISH %s m%d", op.F, i))
					selfDeliveries++
					break
				}
			}
			want = append(want, fmt.Sprintf("PUBACK %d", id))
		}
	}
	cj, _ := json.Marshal(c)
	base, msg := b.RunFaultConn(stream.Bytes(), 4096, -1, -1)
	if msg != "" {
		return fail("%s", msg)
	}
	if fmt.Sprint(base) != fmt.Sprint(want) {
		return fail("without any fault the client was sent %v, expected %v", base, want)
	}
	faultsOnDelivery := 0
	for k := range base {
		got, msg := b.RunFaultConn(stream.Bytes(), 4096, -1, k)
		if msg != "" {
			return fail("write %d failing once: %s", k, msg)
		}
		var without []string
		without = append(append(without, base[:k]...), base[k+1:]...)
		ended := fmt.Sprint(got) == fmt.Sprint(base[:k])
		survived := fmt.Sprint(got) == fmt.Sprint(without)
		if !ended && !survived {
			return fail("the write of %q (packet %d the broker owed the client) failed once; afterwards the client was sent %v, expected either nothing (connection ended) or every other packet owed: %v",
				base[k], k, got[min(k, len(got)):], base[k+1:])
		}
		if n, _, _ := b.S.VerifTrie().VerifDump(); n != 1 {
			return fail("after the connection ended (write %d failed once) the subscription index still has %d nodes", k, n)
		}
		if !vkit.IsAckWrite(base[k]) {
			faultsOnDelivery++
		}
		vkit.RecordRaw("transient-write-failure", append(append([]byte{}, cj...), byte(k)), vkit.Result{NonTrivial: !vkit.IsAckWrite(base[k]) && survived && k < len(base)-2})
	}
	return vkit.OK(faultsOnDelivery > 0 && selfDeliveries >= 2, "fault-session")
}

func TestTransientWriteFailure(t *testing.T) { vkit.Check(t, genFCase, runFCase) }
