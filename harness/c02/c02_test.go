//go:build verif

// C02 — An acknowledged subscription gets every matching publish once, until removed.
// End-to-end stateful exploration: generated request histories of several pipe clients against one
// in-process broker (real accept path, real handlers), clients decode with paho's codec; the oracle is a
// per-connection set of acknowledged filters plus the reference matcher.
package c02

import (
	"bytes"
	"encoding/json"
	"fmt"
	"sort"
	"strings"
	"testing"
	"time"

	"github.com/eclipse/paho.mqtt.golang/packets"
	"github.com/emitter-io/emitter/internal/security"
	"github.com/emitter-io/emitter/internal/verif/vkit"
	"pgregory.net/rapid"
)

func TestMain(m *testing.M) { vkit.Main(m) }

// Topic is one (filter, key kind) element of a SUBSCRIBE/UNSUBSCRIBE.
type Topic struct {
	F string `json:"f"`
	K string `json:"k"` // rw r w exp other junk short
}

// Op is one client request.
type Op struct {
	K      string  `json:"op"` // sub unsub pub link reconnect
	C      int     `json:"c"`
	Topics []Topic `json:"topics,omitempty"`
	Ch     string  `json:"ch,omitempty"`
	Key    string  `json:"key,omitempty"`
	Me0    bool    `json:"me0,omitempty"`
	QoS    int     `json:"qos,omitempty"`
	Link   string  `json:"link,omitempty"`
	Auto   bool    `json:"auto,omitempty"`
	Via    bool    `json:"via,omitempty"` // publish through the link named Link
	Size   int     `json:"size,omitempty"`
	ID     uint16  `json:"id,omitempty"`
}

// Case is a history.
type Case struct {
	Clients int  `json:"clients"`
	MQTT    bool `json:"mqtt,omitempty"` // broker configured with the mqtt matcher (same depth, '+', trailing '#')
	Ops     []Op `json:"ops"`
}

// families put permuted / repeated level sets on one connection (the per-connection counter key was an XOR fold)
var goodFilters = []string{"a/b/", "b/a/", "a/a/", "b/b/", "x/x/y/", "y/", "a/", "a/+/", "+/a/", "+/", "a/b/x/", "x/y/", "y/x/", "+/+/", "b/", "$share/g1/a/b/", "$share/g1/a/", "$share/g2/+/a/", "$share/g1/a/b/"}
var badFilters = []string{"a/b", "a b/", "", "a/+x/", "/", "a/x#/"}
var goodChannels = []string{"a/b/", "b/a/", "a/a/", "b/b/", "x/x/y/", "y/", "a/", "a/b/x/", "x/y/", "y/x/", "b/", "y/z/", "a/x/", "x/a/", "a/y/"}
var badChannels = []string{"a/b", "a/+/", "", "a b/", "+/"}
var linkNames = []string{"l1", "l2", "L", "abc", "", "l-"}

var hotKeys = []string{"rw", "rw", "rw", "rw", "rw", "rw", "r", "w", "exp", "other", "junk", "short"}

// genCase keeps a light generation-side picture of what is probably subscribed/linked so that unsubscribes hit live
// filters and publishes hit subscribed channels often (construction instead of rejection); the oracle does not use it.
var mqttFilters = []string{"a/#/", "a/b/#/", "+/#/", "#/", "a/+/#/"}

func genCase(t *rapid.T) Case {
	c := Case{Clients: rapid.IntRange(1, 4).Draw(t, "clients"), MQTT: rapid.IntRange(0, 3).Draw(t, "mqtt") == 0}
	n := rapid.IntRange(1, 40).Draw(t, "nops")
	live := make([][]string, c.Clients)
	links := make([][]string, c.Clients)
	linkOps := make([][]Op, c.Clients)
	genTopic := func(cl int, unsub bool) Topic {
		f := rapid.SampledFrom(goodFilters).Draw(t, "f")
		if c.MQTT && rapid.IntRange(0, 2).Draw(t, "hashf") == 0 {
			f = rapid.SampledFrom(mqttFilters).Draw(t, "mf")
		}
		if unsub && len(live[cl]) > 0 && rapid.IntRange(0, 3).Draw(t, "hit") > 0 {
			f = rapid.SampledFrom(live[cl]).Draw(t, "lf")
		}
		if rapid.IntRange(0, 11).Draw(t, "badf") == 0 {
			f = rapid.SampledFrom(badFilters).Draw(t, "bf")
		}
		k := rapid.SampledFrom(hotKeys).Draw(t, "k")
		if unsub && rapid.IntRange(0, 3).Draw(t, "unsubkey") > 0 {
			k = "rw"
		}
		return Topic{F: f, K: k}
	}
	for i := 0; i < n; i++ {
		op := Op{C: rapid.IntRange(0, c.Clients-1).Draw(t, "c"), ID: uint16(rapid.IntRange(1, 65535).Draw(t, "id"))}
		switch k := rapid.IntRange(0, 19).Draw(t, "kind"); {
		case k < 7:
			op.K = "sub"
			for j, m := 0, rapid.IntRange(1, 3).Draw(t, "ntopics"); j < m; j++ {
				tp := genTopic(op.C, false)
				op.Topics = append(op.Topics, tp)
				if canRead(tp.K) && validFilter(tp.F) {
					live[op.C] = append(live[op.C], tp.F)
				}
			}
		case k < 10:
			op.K = "unsub"
			for j, m := 0, rapid.IntRange(1, 3).Draw(t, "ntopics"); j < m; j++ {
				op.Topics = append(op.Topics, genTopic(op.C, true))
			}
		case k < 17:
			op.K = "pub"
			op.Ch = rapid.SampledFrom(goodChannels).Draw(t, "ch")
			var all []string
			for _, l := range live {
				all = append(all, l...)
			}
			if len(all) > 0 && rapid.IntRange(0, 2).Draw(t, "hitsub") > 0 {
				op.Ch = strings.ReplaceAll(rapid.SampledFrom(all).Draw(t, "subf"), "+", "a")
				if _, rest, ok := shareOf(op.Ch); ok { // publish to what the share-group filter matches
					op.Ch = rest
				}
				if !inList(goodChannels, op.Ch) {
					op.Ch = rapid.SampledFrom(goodChannels).Draw(t, "chfix")
				}
				if rapid.IntRange(0, 3).Draw(t, "deeper") == 0 && inList(goodChannels, op.Ch+"x/") {
					op.Ch += "x/"
				}
			}
			if rapid.IntRange(0, 11).Draw(t, "badch") == 0 {
				op.Ch = rapid.SampledFrom(badChannels).Draw(t, "bch")
			}
			op.Key = rapid.SampledFrom(hotKeys).Draw(t, "key")
			op.Me0 = rapid.IntRange(0, 3).Draw(t, "me0") == 0
			op.QoS = rapid.IntRange(0, 1).Draw(t, "qos")
			op.Size = rapid.SampledFrom([]int{0, 1, 5, 5, 5, 200, 3000}).Draw(t, "size")
			if len(links[op.C]) > 0 && rapid.IntRange(0, 2).Draw(t, "via") == 0 {
				op.Via, op.Link = true, rapid.SampledFrom(links[op.C]).Draw(t, "name")
			} else if rapid.IntRange(0, 15).Draw(t, "viabad") == 0 {
				op.Via, op.Link = true, "zz"
			}
		case k < 19:
			op.K = "link"
			op.Link = rapid.SampledFrom(linkNames).Draw(t, "name")
			op.Key = rapid.SampledFrom(hotKeys).Draw(t, "key")
			op.Ch = rapid.SampledFrom(goodChannels).Draw(t, "ch")
			if rapid.IntRange(0, 7).Draw(t, "lf") == 0 {
				op.Ch = rapid.SampledFrom(append(append([]string{}, badChannels...), "a/+/")).Draw(t, "lch")
			}
			op.Auto = rapid.Bool().Draw(t, "auto")
			if prev := linkOps[op.C]; len(prev) > 0 && rapid.IntRange(0, 2).Draw(t, "relink") == 0 {
				// the same link request again (clients re-issue their links), possibly with the other subscribe flag
				p := rapid.SampledFrom(prev).Draw(t, "prevlink")
				op.Link, op.Key, op.Ch = p.Link, p.Key, p.Ch
			}
			linkOps[op.C] = append(linkOps[op.C], op)
			links[op.C] = append(links[op.C], op.Link)
			if op.Auto && canRead(op.Key) {
				live[op.C] = append(live[op.C], op.Ch)
			}
		default:
			if rapid.IntRange(0, 2).Draw(t, "again") == 0 {
				op.K = "connect-again" // CONNECT once more on the connection the client already has: accepted, and nothing it holds changes
				break
			}
			op.K = "reconnect"
			live[op.C], links[op.C], linkOps[op.C] = nil, nil, nil
		}
		c.Ops = append(c.Ops, op)
	}
	return c
}

// ---------------------------------------------------------------------------------------------

var shared *vkit.Broker
var sharedMQTT bool
var keys map[string]string

func theBroker(mqtt bool) *vkit.Broker {
	if shared != nil && sharedMQTT != mqtt {
		shared.Close()
		shared = nil
	}
	if shared == nil {
		matcher := ""
		if mqtt {
			matcher = "mqtt"
		}
		b, err := vkit.NewBroker(vkit.BrokerOpts{Matcher: matcher})
		if err != nil {
			panic(err)
		}
		shared, sharedMQTT = b, mqtt
		keys = map[string]string{
			"rw":    b.Key("#/", security.AllowReadWrite),
			"r":     b.Key("#/", security.AllowRead),
			"w":     b.Key("#/", security.AllowWrite),
			"exp":   b.Encrypt(b.RawKey("#/", security.AllowReadWrite, time.Now().Add(-time.Hour), 1)),
			"other": b.Key("zz/#/", security.AllowReadWrite),
			"junk":  strings.Repeat("A", 32),
			"short": "k",
		}
	}
	return shared
}

// validFilter: everything the generator produces except the strings it lists as malformed (filters acquired through a
// link's auto-subscribe come from the channel list).
func validFilter(f string) bool { return !inList(badFilters, f) }

// shareOf splits "$share/<group>/<filter>".
func shareOf(f string) (group, rest string, ok bool) {
	if !strings.HasPrefix(f, "$share/") {
		return "", "", false
	}
	p := strings.SplitN(f, "/", 3)
	if len(p) < 3 || p[2] == "" {
		return "", "", false
	}
	return p[1], p[2], true
}

func canRead(k string) bool  { return k == "rw" || k == "r" }
func canWrite(k string) bool { return k == "rw" || k == "w" }

// validFilter / validChannel mirror what the generator lists as good (the harness knows which strings it made bad).
func inList(l []string, s string) bool {
	for _, x := range l {
		if x == s {
			return true
		}
	}
	return false
}

type mclient struct {
	c     *vkit.Client
	subs  map[string]bool   // acknowledged filters
	links map[string]string // name -> "keykind|channel"
	gen   int
}

func run(c Case) (res vkit.Result) {
	b := theBroker(c.MQTT)
	tr := b.S.VerifTrie()
	if n, _, _ := tr.VerifDump(); tr.Count() != 0 || n != 1 {
		shared = nil // never reuse a broker whose baseline is off
		return vkit.Failf("baseline: trie not empty before the case (count %d, nodes %d) — left over by an earlier case", tr.Count(), n)
	}
	if n := b.S.VerifConnections(); n != 0 {
		shared = nil
		return vkit.Failf("baseline: %d connections before the case", n)
	}
	fail := func(format string, a ...interface{}) vkit.Result {
		shared = nil // the broker may be in an arbitrary state now; do not reuse it
		return vkit.Failf(format, a...)
	}
	clients := make([]*mclient, c.Clients)
	connect := func(i, gen int) error {
		cl := b.Attach(fmt.Sprintf("c%d.%d", i, gen))
		clients[i] = &mclient{c: cl, subs: map[string]bool{}, links: map[string]string{}, gen: gen}
		return cl.Connect(fmt.Sprintf("client-%d-%d", i, gen), "", nil)
	}
	for i := range clients {
		if err := connect(i, 0); err != nil {
			return fail("connect: %v", err)
		}
	}
	labels := map[string]bool{}
	effUnsub, nontrivial := false, false
	expectTrie := func() int {
		n := 0
		for _, m := range clients {
			n += len(m.subs)
		}
		return n
	}
	// quiet: after every request nobody may have received anything unexpected
	quiet := func(step int, skip *mclient) string {
		for i, m := range clients {
			if m == skip {
				continue
			}
			pubs, err := m.c.Barrier()
			if err != nil {
				return fmt.Sprintf("step %d: barrier on client %d: %v", step, i, err)
			}
			if len(pubs) != 0 {
				return fmt.Sprintf("step %d: client %d received %d unexpected packet(s), first topic %q payload %q", step, i, len(pubs), pubs[0].TopicName, trunc(pubs[0].Payload))
			}
		}
		return ""
	}
	for step, op := range c.Ops {
		m := clients[op.C]
		switch op.K {
		case "sub":
			var topics []string
			for _, tp := range op.Topics {
				topics = append(topics, keys[tp.K]+"/"+tp.F)
			}
			codes, pubs, err := m.c.Subscribe(op.ID, topics...)
			if err != nil {
				return fail("step %d: subscribe: %v", step, err)
			}
			if len(codes) != len(op.Topics) {
				return fail("step %d: SUBACK carries %d return codes for %d topics", step, len(codes), len(op.Topics))
			}
			wantErrs := 0
			for i, tp := range op.Topics {
				ok := validFilter(tp.F) && canRead(tp.K)
				if ok != (codes[i] != 0x80) {
					return fail("step %d: subscribe %v: return code %#x, expected success=%v", step, tp, codes[i], ok)
				}
				if ok {
					if m.subs[tp.F] {
						labels["resubscribe"] = true
					}
					m.subs[tp.F] = true
				} else {
					wantErrs++
					labels["sub-refused"] = true
				}
			}
			if msg := checkErrors(pubs, wantErrs, op.ID); msg != "" {
				return fail("step %d: subscribe %v: %s", step, op.Topics, msg)
			}
		case "unsub":
			var topics []string
			for _, tp := range op.Topics {
				topics = append(topics, keys[tp.K]+"/"+tp.F)
			}
			pubs, err := m.c.Unsubscribe(op.ID, topics...)
			if err != nil {
				return fail("step %d: unsubscribe: %v", step, err)
			}
			wantErrs := 0
			for _, tp := range op.Topics {
				if validFilter(tp.F) && canRead(tp.K) {
					if m.subs[tp.F] {
						effUnsub = true
					}
					delete(m.subs, tp.F)
				} else {
					wantErrs++
					labels["unsub-refused"] = true
				}
			}
			if msg := checkErrors(pubs, wantErrs, op.ID); msg != "" {
				return fail("step %d: unsubscribe %v: %s", step, op.Topics, msg)
			}
		case "link":
			pubs, err := m.c.Request(op.ID, "link", map[string]interface{}{"name": op.Link, "key": keys[op.Key], "channel": op.Ch, "subscribe": op.Auto})
			if err != nil {
				return fail("step %d: link: %v", step, err)
			}
			nameOK := len(op.Link) >= 1 && len(op.Link) <= 2 && !strings.ContainsAny(op.Link, "-_ ")
			chanOK := inList(goodChannels, op.Ch) || op.Ch == "a/+/" || op.Ch == "+/"
			if len(pubs) != 1 {
				return fail("step %d: link request answered by %d packets", step, len(pubs))
			}
			var resp struct {
				Status  int    `json:"status"`
				Req     int    `json:"req"`
				Name    string `json:"name"`
				Channel string `json:"channel"`
			}
			if err := json.Unmarshal(pubs[0].Payload, &resp); err != nil {
				return fail("step %d: link response does not parse: %q", step, pubs[0].Payload)
			}
			if resp.Req != int(op.ID) {
				return fail("step %d: link response carries request id %d, want %d", step, resp.Req, op.ID)
			}
			if nameOK && chanOK {
				if resp.Status != 200 || resp.Name != op.Link || resp.Channel != op.Ch {
					return fail("step %d: link %q->%q: response %+v, expected 200", step, op.Link, op.Ch, resp)
				}
				m.links[op.Link] = op.Key + "|" + op.Ch
				if op.Auto && canRead(op.Key) {
					m.subs[op.Ch] = true
					labels["link-autosub"] = true
				}
			} else if resp.Status != 400 {
				return fail("step %d: invalid link request (name %q channel %q) answered with status %d", step, op.Link, op.Ch, resp.Status)
			}
		case "pub":
			payload := bytes.Repeat([]byte{byte('a' + step%26)}, op.Size)
			if op.Size >= 5 {
				copy(payload, fmt.Sprintf("m%04d", step))
			}
			topic, ch, key := "", op.Ch, op.Key
			valid := inList(goodChannels, op.Ch)
			me0 := op.Me0
			if op.Via {
				topic = op.Link
				me0 = false
				if l, ok := m.links[op.Link]; ok {
					p := strings.SplitN(l, "|", 2)
					key, ch = p[0], p[1]
					valid = inList(goodChannels, ch)
					labels["publish-via-link"] = true
				} else {
					valid = false
				}
			} else {
				topic = keys[op.Key] + "/" + op.Ch
				if me0 {
					topic += "?me=0"
				}
			}
			accepted := valid && canWrite(key)
			pk := packets.NewControlPacket(packets.Publish).(*packets.PublishPacket)
			pk.Qos, pk.MessageID, pk.TopicName, pk.Payload = byte(op.QoS), op.ID, topic, payload
			if err := m.c.Send(pk); err != nil {
				return fail("step %d: publish: %v", step, err)
			}
			var own []*packets.PublishPacket
			var err error
			if op.QoS == 1 {
				var ack packets.ControlPacket
				own, ack, err = m.c.Until(packets.Puback)
				if err == nil && ack.(*packets.PubackPacket).MessageID != op.ID {
					err = fmt.Errorf("PUBACK id %d want %d", ack.(*packets.PubackPacket).MessageID, op.ID)
				}
			} else {
				own, err = m.c.Barrier()
			}
			if err != nil {
				return fail("step %d: publish %+v: %v", step, op, err)
			}
			shareRecv := 0                  // connections that hold only share-group filters for this channel and received a copy
			groupsAll := map[string]bool{}  // share groups with a matching member (the publisher is no member when it excluded itself)
			groupsOpen := map[string]bool{} // ... of which no member also holds a matching ordinary filter
			groupHit := map[string]bool{}
			for _, o := range clients {
				direct := false
				for f := range o.subs {
					if vkit.MatchStr(c.MQTT, f, ch) {
						direct = true
					}
				}
				for f := range o.subs {
					if g, rest, ok := shareOf(f); ok && vkit.MatchStr(c.MQTT, rest, ch) && !(me0 && o == m) {
						if !groupsAll[g] {
							groupsAll[g], groupsOpen[g] = true, true
						}
						if direct {
							groupsOpen[g] = false
						}
					}
				}
			}
			for i, o := range clients {
				var got []*packets.PublishPacket
				if o == m {
					got = own
				} else if got, err = o.c.Barrier(); err != nil {
					return fail("step %d: barrier on client %d: %v", step, i, err)
				}
				want := 0
				if accepted {
					for f := range o.subs {
						if vkit.MatchStr(c.MQTT, f, ch) {
							want = 1
						}
					}
					if me0 && o == m {
						want = 0
						labels["me0-excluded"] = true
					}
				}
				var data []*packets.PublishPacket
				nerr := 0
				for _, p := range got {
					if _, req, isErr := vkit.IsErrorReply(p); isErr {
						nerr++
						wantReq := 0
						if op.QoS == 1 {
							wantReq = int(op.ID)
						}
						if req != wantReq {
							return fail("step %d: error reply carries request id %d, want %d", step, req, wantReq)
						}
					} else {
						data = append(data, p)
					}
				}
				wantErr := 0
				if o == m && !accepted {
					wantErr = 1
				}
				if nerr != wantErr {
					return fail("step %d: publish %+v (accepted=%v): client %d got %d error replies, want %d", step, op, accepted, i, nerr, wantErr)
				}
				// a connection that holds only share-group filters matching the channel may be the member picked for its group
				var myGroups []string
				if accepted && want == 0 && !(me0 && o == m) {
					for f := range o.subs {
						if g, rest, ok := shareOf(f); ok && vkit.MatchStr(c.MQTT, rest, ch) {
							myGroups = append(myGroups, g)
						}
					}
				}
				if len(myGroups) > 0 && len(data) == 1 {
					want = 1
					shareRecv++
					for _, g := range myGroups {
						groupHit[g] = true
					}
					labels["delivered-to-share-member"] = true
				}
				if len(data) != want {
					return fail("step %d: publish to %q by client %d (accepted=%v me0=%v): client %d holding %v received %d copies, want %d",
						step, ch, op.C, accepted, me0, i, sortedKeys(o.subs), len(data), want)
				}
				for _, p := range data {
					if p.TopicName != ch || !bytes.Equal(p.Payload, payload) {
						return fail("step %d: client %d received topic %q payload %q, want topic %q payload %q", step, i, p.TopicName, trunc(p.Payload), ch, trunc(payload))
					}
					if p.Qos != 0 || p.Retain || p.Dup {
						return fail("step %d: delivered packet has header %s", step, p.FixedHeader)
					}
				}
				if want == 1 {
					labels["delivered"] = true
					if c.MQTT {
						labels["delivered-mqtt-mode"] = true
					}
					if len(o.subs) >= 2 && effUnsub {
						nontrivial = true
					}
				}
			}
			if accepted {
				// one member per share group: no more share-only receivers than groups, and a group none of whose members
				// receives the message anyway (through an ordinary filter) must have had one member picked
				if shareRecv > len(groupsAll) {
					return fail("step %d: publish to %q: %d connections holding only share-group filters received it, %d groups have a matching member", step, ch, shareRecv, len(groupsAll))
				}
				for g, open := range groupsOpen {
					if open && !groupHit[g] {
						return fail("step %d: publish to %q: no member of share group %s received it although the group has a matching member", step, ch, g)
					}
				}
			}
			if !accepted {
				labels["publish-refused"] = true
			}
		case "connect-again":
			if err := m.c.Connect(fmt.Sprintf("client-%d-%d", op.C, m.gen), "", nil); err != nil {
				return fail("step %d: a further CONNECT on the same connection: %v", step, err)
			}
			labels["connect-again"] = true
		case "reconnect":
			if err := m.c.Close(); err != nil {
				return fail("step %d: close of client %d: %v", step, op.C, err)
			}
			if len(m.subs) > 0 {
				effUnsub = true
			}
			if err := connect(op.C, m.gen+1); err != nil {
				return fail("step %d: reconnect: %v", step, err)
			}
			labels["reconnect"] = true
		}
		if op.K != "pub" {
			if msg := quiet(step, nil); msg != "" {
				return fail("%s (after %+v)", msg, op)
			}
		}
		if got, want := tr.Count(), expectTrie(); got != want {
			return fail("step %d (%+v): broker holds %d subscriptions, model %d", step, op, got, want)
		}
	}
	for i, m := range clients {
		if err := m.c.Close(); err != nil {
			return fail("closing client %d: %v", i, err)
		}
	}
	if n, _, _ := tr.VerifDump(); tr.Count() != 0 || n != 1 {
		return fail("after every client closed the trie still holds %d subscriptions (%d nodes)", tr.Count(), n)
	}
	if n := b.S.VerifConnections(); n != 0 {
		return fail("after every client closed the connection counter is %d", n)
	}
	r := vkit.Result{NonTrivial: nontrivial}
	for l := range labels {
		r.Labels = append(r.Labels, l)
	}
	sort.Strings(r.Labels)
	return r
}

func checkErrors(pubs []*packets.PublishPacket, want int, id uint16) string {
	n := 0
	for _, p := range pubs {
		st, req, ok := vkit.IsErrorReply(p)
		if !ok {
			return fmt.Sprintf("unexpected packet before the acknowledgement: topic %q payload %q", p.TopicName, trunc(p.Payload))
		}
		if req != int(id) {
			return fmt.Sprintf("error reply carries request id %d, want %d", req, id)
		}
		if st != 400 && st != 401 && st != 403 {
			return fmt.Sprintf("error reply with status %d", st)
		}
		n++
	}
	if n != want {
		return fmt.Sprintf("%d error replies, expected %d", n, want)
	}
	return ""
}

func trunc(b []byte) string {
	if len(b) > 40 {
		return string(b[:40]) + fmt.Sprintf("...(%d bytes)", len(b))
	}
	return string(b)
}

func sortedKeys(m map[string]bool) []string {
	var out []string
	for k := range m {
		out = append(out, k)
	}
	sort.Strings(out)
	return out
}

func TestSessions(t *testing.T) { vkit.Check(t, genCase, run) }
