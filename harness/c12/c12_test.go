//go:build verif

// C12 — A key cannot be altered into a more powerful one.
package c12

import (
	"encoding/base64"
	"fmt"
	"github.com/emitter-io/emitter/internal/event"
	"math/rand"
	"sort"
	"strings"
	"sync"
	"testing"
	"time"

	"github.com/emitter-io/emitter/internal/security"
	"github.com/emitter-io/emitter/internal/verif/vkit"
	"pgregory.net/rapid"
)

func TestMain(m *testing.M) { vkit.Main(m) }

const alphabet = "ABCDEFGHIJKLMNOPQRSTUVWXYZabcdefghijklmnopqrstuvwxyz0123456789-_"

// KeySpec describes an issued key.
type KeySpec struct {
	Perm   uint8  `json:"perm"`
	Target string `json:"target"`
	Expiry string `json:"expiry"` // none future past
	Salt   uint16 `json:"salt"`
}

// Mod is a modification of the 32-character key string. Kind: flip (Bits of the 24 raw bytes), xor (Pos/Mask byte
// pairs), subst (character Pos replaced by alphabet[Ch]), outside (character Pos replaced by a byte outside the
// URL-safe alphabet), swap / dup (4-character = 3-byte blocks, or 8-byte cipher blocks when Wide), trunc, extend,
// splice (8-byte block Blk taken from a second issued key).
type Mod struct {
	Kind string `json:"kind"`
	Bits []int  `json:"bits,omitempty"`
	Pos  []int  `json:"pos,omitempty"`
	Mask []int  `json:"mask,omitempty"`
	Ch   int    `json:"ch,omitempty"`
	I    int    `json:"i,omitempty"`
	J    int    `json:"j,omitempty"`
	Wide bool   `json:"wide,omitempty"`
	N    int    `json:"n,omitempty"`
}

// Case: one issued key (and for splices a second one) under one license version, one modification.
type Case struct {
	Lic   int     `json:"lic"`
	Key   KeySpec `json:"key"`
	Other KeySpec `json:"other"`
	Mod   Mod     `json:"mod"`
	// Banned: the issued key has been banned before the modified string is presented: the original grants nothing any
	// more, so a modified spelling that still works (another alphabet, padding, a suffix) is more powerful than the original
	Banned bool `json:"banned,omitempty"`
}

var targets = []string{"a/", "a/b/", "a/#/", "+/b/", "b/", "a/b/#/", "#/"}

func genSpec(t *rapid.T, l string) KeySpec {
	return KeySpec{Perm: rapid.SampledFrom([]uint8{security.AllowRead, security.AllowWrite, security.AllowReadWrite, security.AllowLoad, security.AllowPresence,
		security.AllowRead | security.AllowExtend, security.AllowStore | security.AllowWrite, security.AllowAll, 0}).Draw(t, l+"perm"),
		Target: rapid.SampledFrom(targets).Draw(t, l+"target"), Expiry: rapid.SampledFrom([]string{"none", "none", "future", "past"}).Draw(t, l+"expiry"),
		Salt: uint16(rapid.SampledFrom([]int{0, 1, 1234, 1234, 32767, 65535}).Draw(t, l+"salt"))}
}

func genCase(t *rapid.T) Case {
	c := Case{Lic: rapid.IntRange(1, 3).Draw(t, "lic"), Key: genSpec(t, "k"), Other: genSpec(t, "o")}
	m := Mod{Kind: rapid.SampledFrom([]string{"flip", "flip", "flip", "xor", "xor", "subst", "subst", "outside", "swap", "dup", "trunc", "extend", "splice", "splice"}).Draw(t, "kind")}
	switch m.Kind {
	case "flip":
		for i, n := 0, rapid.SampledFrom([]int{1, 1, 1, 2, 3}).Draw(t, "nbits"); i < n; i++ {
			m.Bits = append(m.Bits, rapid.IntRange(0, 191).Draw(t, "bit"))
		}
	case "xor":
		for i, n := 0, rapid.IntRange(1, 4).Draw(t, "nbytes"); i < n; i++ {
			m.Pos = append(m.Pos, rapid.IntRange(0, 23).Draw(t, "pos"))
			m.Mask = append(m.Mask, rapid.IntRange(1, 255).Draw(t, "mask"))
		}
	case "subst", "outside":
		m.Pos = []int{rapid.IntRange(0, 31).Draw(t, "pos")}
		m.Ch = rapid.IntRange(0, 63).Draw(t, "ch")
	case "swap", "dup":
		m.Wide = rapid.Bool().Draw(t, "wide")
		nb := 8
		if m.Wide {
			nb = 3
		}
		m.I, m.J = rapid.IntRange(0, nb-1).Draw(t, "i"), rapid.IntRange(0, nb-1).Draw(t, "j")
	case "trunc", "extend":
		m.N = rapid.IntRange(1, 8).Draw(t, "n")
	case "splice":
		m.I = rapid.IntRange(0, 2).Draw(t, "blk")
		if rapid.Bool().Draw(t, "two") {
			m.J = 1 + rapid.IntRange(0, 2).Draw(t, "blk2") // a second block as well (J-1)
		}
	}
	c.Mod = m
	c.Banned = rapid.IntRange(0, 4).Draw(t, "banned") == 0
	return c
}

var outsideBytes = []byte("+/=.~*$ !@,;:\x00\xff\x80")

type env struct{ b *vkit.Broker }

var envs = map[int]*env{}

func getEnv(v int) *env {
	if e, ok := envs[v]; ok {
		return e
	}
	b, err := vkit.NewBroker(vkit.BrokerOpts{LicVersion: v, Node: fmt.Sprintf("00:00:00:00:02:0%d", v)})
	if err != nil {
		panic(err)
	}
	envs[v] = &env{b}
	return envs[v]
}

var probeChannels = []string{"a/", "b/", "c/", "a/b/", "a/c/", "b/a/", "b/b/", "a/b/c/", "c/b/", "a/a/", "a/b/b/", "zz/"}
var probePerms = []uint8{security.AllowRead, security.AllowWrite, security.AllowStore, security.AllowLoad, security.AllowPresence, security.AllowExtend}

// granted: everything the string is good for on the probe set, plus whether it can mint keys.
func granted(e *env, k string) map[string]bool {
	g := map[string]bool{}
	for _, ch := range probeChannels {
		c := security.ParseChannel([]byte(k + "/" + ch))
		for _, p := range probePerms {
			if _, _, ok := e.b.S.Authorize(c, p); ok {
				g[fmt.Sprintf("%s:%08b", ch, p)] = true
			}
		}
	}
	if _, err := e.b.S.VerifKeygen().CreateKey(k, "a/", security.AllowRead, time.Unix(0, 0)); err == nil {
		g["MINT"] = true
	}
	return g
}

func issue(e *env, s KeySpec) string {
	exp := time.Unix(0, 0)
	switch s.Expiry {
	case "future":
		exp = time.Now().Add(time.Hour)
	case "past":
		exp = time.Now().Add(-time.Hour)
	}
	return e.b.Encrypt(e.b.RawKey(s.Target, s.Perm, exp, s.Salt))
}

func apply(m Mod, enc, other string) string {
	raw, _ := base64.RawURLEncoding.DecodeString(enc)
	oraw, _ := base64.RawURLEncoding.DecodeString(other)
	switch m.Kind {
	case "flip":
		for _, b := range m.Bits {
			raw[b/8] ^= 1 << uint(b%8)
		}
	case "xor":
		for i, p := range m.Pos {
			raw[p] ^= byte(m.Mask[i])
		}
	case "subst":
		b := []byte(enc)
		b[m.Pos[0]] = alphabet[m.Ch]
		return string(b)
	case "outside":
		b := []byte(enc)
		b[m.Pos[0]] = outsideBytes[m.Ch%len(outsideBytes)]
		return string(b)
	case "swap", "dup":
		sz := 3
		if m.Wide {
			sz = 8
		}
		bi, bj := append([]byte{}, raw[m.I*sz:m.I*sz+sz]...), append([]byte{}, raw[m.J*sz:m.J*sz+sz]...)
		copy(raw[m.J*sz:], bi)
		if m.Kind == "swap" {
			copy(raw[m.I*sz:], bj)
		}
	case "trunc":
		return enc[:32-m.N]
	case "extend":
		return enc + enc[:m.N]
	case "splice":
		copy(raw[m.I*8:m.I*8+8], oraw[m.I*8:m.I*8+8])
		if m.J > 0 {
			j := m.J - 1
			copy(raw[j*8:j*8+8], oraw[j*8:j*8+8])
		}
	}
	return base64.RawURLEncoding.EncodeToString(raw)
}

func findingFor(c Case, enc, mod string) string {
	a, _ := base64.RawURLEncoding.DecodeString(enc)
	b, err := base64.RawURLEncoding.DecodeString(mod)
	if err != nil || len(a) != 24 || len(b) != 24 {
		return ""
	}
	switch c.Lic {
	case 2: // XSalsa20 with a fixed nonce: all 24 bytes are keystream-encrypted, any same-length XOR difference is the listed malleability
		return "C12-stream-cipher-malleable-v2"
	case 3: // the 2 clear salt bytes select the keystream: only differences confined to bytes 2..23 are the listed malleability
		if a[0] == b[0] && a[1] == b[1] {
			return "C12-stream-cipher-malleable-v3"
		}
	}
	return ""
}

func run(c Case) vkit.Result {
	e := getEnv(c.Lic)
	enc := issue(e, c.Key)
	other := issue(e, c.Other)
	mod := apply(c.Mod, enc, other)
	if mod == enc {
		return vkit.Result{Excluded: true, Labels: []string{"modification-is-identity"}}
	}
	if c.Banned {
		ban := event.Ban(enc)
		e.b.S.VerifSwarm().Notify(&ban, true)
		defer e.b.S.VerifSwarm().Notify(&ban, false)
	}
	base := granted(e, enc)
	if c.Banned && len(base) > 0 {
		return vkit.Failf("license v%d: a banned key still grants %d probe operations", c.Lic, len(base))
	}
	if c.Mod.Kind == "splice" {
		if mod == other {
			return vkit.Result{Excluded: true, Labels: []string{"modification-is-identity"}}
		}
		for k := range granted(e, other) { // what the attacker legitimately holds
			base[k] = true
		}
	}
	got := granted(e, mod)
	var gained []string
	for k := range got {
		if !base[k] {
			gained = append(gained, k)
		}
	}
	sort.Strings(gained)
	// second oracle, on the decrypted fields (the harness holds the cipher): if the modified string is a key the broker
	// accepts at all (own contract, signature, master id, not expired), then compared with the key(s) the attacker held it
	// must not carry a permission bit they lacked, a different target, or a later expiry. A different 32-bit target hash
	// counts as a gain even if no probe channel has that hash: murmur preimages are found by brute force in seconds.
	// It is applied where the attacker can predict the resulting plaintext: stream ciphers (v2, v3: XOR differences carry
	// over) and whole-cipher-block copies under v1's ECB mode. Other modifications of a v1 key garble an 8-byte block into
	// pseudo-random fields (or, for splices between keys of different salt, fields XOR-ed with an unknown salt difference) the attacker cannot know (exploiting them is the 2^-32 guess this check does not claim to find);
	// those are counted, and still subject to the probe-set oracle above. Under v3 the two clear salt bytes select the keystream:
	// a modification that changes them (or splices keys of different salt) decrypts the rest with an unknown keystream difference.
	labels := []string{fmt.Sprintf("license-v%d", c.Lic), "mod-" + c.Mod.Kind}
	if c.Banned {
		labels = append(labels, "original-banned")
	}
	if msg := fieldGain(e, c, enc, other, mod); msg != "" {
		ra, _ := base64.RawURLEncoding.DecodeString(enc)
		rb, _ := base64.RawURLEncoding.DecodeString(mod)
		sameSalt := len(ra) == 24 && len(rb) == 24 && ra[0] == rb[0] && ra[1] == rb[1] && (c.Mod.Kind != "splice" || c.Key.Salt == c.Other.Salt)
		predictable := c.Lic == 2 || (c.Lic == 3 && sameSalt) || (c.Mod.Kind == "splice" && c.Key.Salt == c.Other.Salt) || ((c.Mod.Kind == "swap" || c.Mod.Kind == "dup") && c.Mod.Wide)
		if predictable {
			gained = append(gained, msg)
		} else {
			labels = append(labels, "v1-block-garbled-into-unpredictable-fields")
		}
	}
	if len(got) > 0 {
		labels = append(labels, "modified-key-still-grants-something")
	}
	if len(gained) > 0 {
		r := vkit.Failf("license v%d: key %+v modified by %+v (%q -> %q) gains %v (original grants %d probe operations, modified %d)", c.Lic, c.Key, c.Mod, enc, mod, gained, len(base), len(got))
		r.Finding = findingFor(c, enc, mod)
		if c.Mod.Kind == "splice" && c.Lic == 1 && c.Key.Salt == c.Other.Salt {
			r.Finding = "C12-ecb-block-splice-v1"
		}
		if (c.Mod.Kind == "swap" || c.Mod.Kind == "dup") && c.Mod.Wide && c.Lic == 1 {
			r.Finding = "C12-ecb-block-rearrange-v1"
		}
		r.Labels = labels
		return r
	}
	valid := len(mod) == 32 && strings.Trim(mod, alphabet) == ""
	return vkit.Result{NonTrivial: valid, Labels: labels}
}

func fieldGain(e *env, c Case, enc, other, mod string) string {
	kg := e.b.S.VerifKeygen()
	k, err := kg.DecryptKey(mod)
	if err != nil || len(k) != 24 {
		return ""
	}
	lic := e.b.Lic
	if k.Contract() != lic.Contract() || k.Signature() != lic.Signature() || uint32(k.Master()) != lic.Master() || k.IsExpired() || k.Permissions() == 0 {
		return "" // refused everywhere or good for nothing
	}
	holders := []string{enc}
	if c.Mod.Kind == "splice" {
		holders = append(holders, other)
	}
	why := ""
	for _, h := range holders {
		o, _ := kg.DecryptKey(h)
		if o.IsExpired() {
			why = "the held key had expired, the modified one is valid"
			continue
		}
		if extra := k.Permissions() &^ o.Permissions(); extra != 0 {
			why = fmt.Sprintf("permission bits %08b gained", extra)
			continue
		}
		if string(k[12:15]) != string(o[12:15]) || string(k[16:20]) != string(o[16:20]) {
			why = fmt.Sprintf("target changed from (path %x, hash %x) to (path %x, hash %x)", []byte(o[12:15]), []byte(o[16:20]), []byte(k[12:15]), []byte(k[16:20]))
			continue
		}
		oe, ke := o.Expires().Unix(), k.Expires().Unix()
		if oe != 0 && (ke == 0 || ke > oe) {
			why = fmt.Sprintf("expiry moved from %d to %d", oe, ke)
			continue
		}
		return "" // no more powerful than a key the attacker already held
	}
	return "FIELDS: " + why
}

func TestTamper(t *testing.T) { vkit.Check(t, genCase, run) }

// TestSingleBitFlips enumerates all 192 single-bit flips for a few keys per license version (complete for those keys).
func TestSingleBitFlips(t *testing.T) {
	specs := []KeySpec{{Perm: security.AllowRead, Target: "a/", Expiry: "none", Salt: 1234}, {Perm: security.AllowReadWrite, Target: "a/b/", Expiry: "none", Salt: 1},
		{Perm: security.AllowRead, Target: "a/#/", Expiry: "past", Salt: 77}, {Perm: security.AllowWrite, Target: "+/b/", Expiry: "future", Salt: 65535}}
	for v := 1; v <= 3; v++ {
		for _, s := range specs {
			for bit := 0; bit < 192; bit++ {
				c := Case{Lic: v, Key: s, Other: s, Mod: Mod{Kind: "flip", Bits: []int{bit}}}
				r := run(c)
				if r.Fail != "" {
					if r.Finding != "" && vkit.Known(r.Finding) {
						vkit.Record(t.Name(), c, vkit.Result{Excluded: true, Labels: []string{"finding:" + r.Finding}})
						vkit.Label("finding-hit:"+r.Finding, 1)
						continue
					}
					vkit.ReportFailure(t.Name(), c, r.Fail, r.Finding)
					t.Fatal(r.Fail)
				}
				vkit.Record(t.Name(), c, r)
			}
		}
	}
	// probes of the listed findings: flip of bit 103 (the exact-target flag, byte 12 bit 7) of a read key for a/
	for v, id := range map[int]string{2: "C12-stream-cipher-malleable-v2", 3: "C12-stream-cipher-malleable-v3"} {
		r := run(Case{Lic: v, Key: specs[0], Other: specs[0], Mod: Mod{Kind: "flip", Bits: []int{103}}})
		vkit.Probe(id, r.Fail != "" && r.Finding == id, r.Fail)
	}
	r := run(Case{Lic: 1, Key: KeySpec{Perm: security.AllowRead, Target: "a/", Expiry: "none", Salt: 5}, Other: KeySpec{Perm: security.AllowWrite, Target: "b/", Expiry: "none", Salt: 5}, Mod: Mod{Kind: "splice", I: 2}})
	vkit.Probe("C12-ecb-block-splice-v1", r.Fail != "" && r.Finding == "C12-ecb-block-splice-v1", r.Fail)
	r = run(Case{Lic: 1, Key: KeySpec{Perm: security.AllowReadWrite, Target: "a/", Expiry: "past", Salt: 5}, Other: KeySpec{Perm: security.AllowReadWrite, Target: "a/", Expiry: "past", Salt: 5}, Mod: Mod{Kind: "dup", Wide: true, I: 0, J: 2}})
	vkit.Probe("C12-ecb-block-rearrange-v1", r.Fail != "" && r.Finding == "C12-ecb-block-rearrange-v1", r.Fail)
}

// TestSpliceIssuedKeys: the same block-splice modification, but on keys issued by the broker's own key generation
// (salts chosen by the broker, not by the harness). Per-key random salts are what keeps cipher blocks of different
// keys from being interchangeable under v1; pairs that happen to share a salt (2^-15) are the listed finding and are
// skipped - unless they are frequent, which means the salts are not per-key random.
func TestSpliceIssuedKeys(t *testing.T) {
	n := vkit.N(300)
	for v := 1; v <= 3; v++ {
		e := getEnv(v)
		kg := e.b.S.VerifKeygen()
		equalSalt := 0
		for i := 0; i < n; i++ {
			a, err1 := kg.CreateKey(e.b.Master, "pub/", security.AllowReadWrite, time.Unix(0, 0))
			b, err2 := kg.CreateKey(e.b.Master, "priv/", security.AllowRead, time.Unix(0, 0))
			if err1 != nil || err2 != nil {
				t.Fatalf("CreateKey: %v %v", err1, err2)
			}
			ka, _ := kg.DecryptKey(a)
			kb, _ := kg.DecryptKey(b)
			if ka.Salt() == kb.Salt() {
				equalSalt++
				continue
			}
			base := granted2(e, a, b)
			for blk := 0; blk < 3; blk++ {
				for dir := 0; dir < 2; dir++ {
					src, dst := a, b
					if dir == 1 {
						src, dst = b, a
					}
					mod := apply(Mod{Kind: "splice", I: blk}, dst, src)
					c := map[string]interface{}{"license": v, "block": blk, "into": []string{"priv-read-key", "pub-rw-key"}[dir], "pair": i}
					var gained []string
					for k := range grantedOn(e, mod) {
						if !base[k] {
							gained = append(gained, k)
						}
					}
					if len(gained) > 0 {
						if v >= 2 { // stream ciphers: listed malleability findings cover it
							vkit.Label("finding-hit-issued-splice-v"+fmt.Sprint(v), 1)
							continue
						}
						sort.Strings(gained)
						vkit.ReportFailure(t.Name(), c, fmt.Sprintf("license v%d: cipher block %d of one broker-issued key copied into another broker-issued key (salts %d / %d) gains %v", v, blk, ka.Salt(), kb.Salt(), gained), "")
						t.Fatalf("issued-key splice gains %v", gained)
					}
					vkit.Record(t.Name(), c, vkit.OK(true, "issued-key-splice"))
				}
			}
		}
		// the salts of a long series of issued keys: with 15-bit random salts 1 200 keys collide about 22 times; a generator
		// that repeats (a pool that is not refilled, a counter) makes cipher blocks of different keys interchangeable
		salts := map[uint16]int{}
		const series = 1200
		for i := 0; i < series; i++ {
			k, err := e.b.S.VerifKeygen().CreateKey(e.b.Master, "a/", security.AllowRead, time.Unix(0, 0))
			if err != nil {
				t.Fatal(err)
			}
			raw, derr := e.b.S.VerifKeygen().DecryptKey(k)
			if derr != nil {
				t.Fatal(derr)
			}
			salts[raw.Salt()]++
		}
		if len(salts) < series-120 {
			c := map[string]interface{}{"license": v, "keys": series, "distinct-salts": len(salts)}
			vkit.ReportFailure(t.Name(), c, fmt.Sprintf("license v%d: %d keys issued in a row carry only %d distinct salts (random 15-bit salts give about %d): salts repeat, so cipher blocks of different issued keys are interchangeable", v, series, len(salts), series-22), "")
			t.Fatalf("salts repeat")
		}
		vkit.Record(t.Name(), map[string]interface{}{"license": v, "series": series}, vkit.OK(true, "salt-series"))
		if equalSalt > 3 {
			c := map[string]interface{}{"license": v, "pairs": n, "equal-salt-pairs": equalSalt}
			vkit.ReportFailure(t.Name(), c, fmt.Sprintf("license v%d: %d of %d pairs of keys issued by the broker carry the same salt: salts are not per-key random, so cipher blocks of different keys are interchangeable", v, equalSalt, n), "")
			t.Fatalf("salts not random")
		}
	}
}

var spliceProbe = []string{"pub/", "priv/", "a/"}

func grantedOn(e *env, k string) map[string]bool {
	g := map[string]bool{}
	for _, ch := range spliceProbe {
		c := security.ParseChannel([]byte(k + "/" + ch))
		for _, p := range probePerms {
			if _, _, ok := e.b.S.Authorize(c, p); ok {
				g[fmt.Sprintf("%s:%08b", ch, p)] = true
			}
		}
	}
	return g
}

func granted2(e *env, a, b string) map[string]bool {
	g := grantedOn(e, a)
	for k := range grantedOn(e, b) {
		g[k] = true
	}
	return g
}

// TestTamperWhileOthersAuthorize: the attacker presents modified keys while other clients of the same broker are being
// authorized with powerful keys at the same moment. A modified key may not pick up anything from them: what it grants
// must be what it grants when it is presented alone (computed beforehand, sequentially), which in turn is within what
// the original key grants unless the modification falls under a listed finding (those are left out here).
func TestTamperWhileOthersAuthorize(t *testing.T) {
	rounds := vkit.N(6)
	for round := 0; round < rounds; round++ {
		v := 1 + round%3
		e := getEnv(v)
		rng := rand.New(rand.NewSource(vkit.Seed() + int64(round)))
		weak := issue(e, KeySpec{Perm: security.AllowRead, Target: "a/", Expiry: "none", Salt: uint16(rng.Intn(65536))})
		strongKeys := []string{issue(e, KeySpec{Perm: security.AllowAll &^ security.AllowMaster, Target: "#/", Expiry: "none", Salt: uint16(rng.Intn(65536))}), e.b.Master,
			issue(e, KeySpec{Perm: security.AllowReadWrite | security.AllowStore | security.AllowPresence, Target: "b/", Expiry: "none", Salt: uint16(rng.Intn(65536))})}
		// modifications that are rejected or harmless when presented alone: garbled signature / contract bytes, characters
		// outside the alphabet, truncation; each with its sequential grant set as the reference
		type att struct {
			mod  string
			want map[string]bool
		}
		var atts []att
		orig := granted(e, weak)
		for i := 0; i < 40; i++ {
			m := []byte(weak)
			switch i % 4 {
			case 0:
				m[5+rng.Intn(10)] = alphabet[rng.Intn(64)]
			case 1:
				m[rng.Intn(32)] = outsideBytes[rng.Intn(len(outsideBytes))]
			case 2:
				m[10], m[11] = m[11], m[10]
			case 3:
				m = m[:31-rng.Intn(3)]
			}
			w := granted(e, string(m))
			escalates := false
			for k := range w {
				if !orig[k] {
					escalates = true // a listed finding (stream-cipher malleability) when presented alone: not this leg's subject
				}
			}
			if !escalates {
				atts = append(atts, att{string(m), w})
			}
		}
		stop := make(chan struct{})
		var wg sync.WaitGroup
		for g := 0; g < 4; g++ {
			wg.Add(1)
			go func(g int) {
				defer wg.Done()
				ch := []string{"secret/", "b/", "zz/top/"}
				for i := 0; ; i++ {
					select {
					case <-stop:
						return
					default:
					}
					e.b.S.Authorize(security.ParseChannel([]byte(strongKeys[(i+g)%len(strongKeys)]+"/"+ch[i%3])), security.AllowWrite)
				}
			}(g)
		}
		fail := ""
	attack:
		for it := 0; it < 30; it++ {
			for _, a := range atts {
				got := granted(e, a.mod)
				for k := range got {
					if !a.want[k] {
						fail = fmt.Sprintf("license v%d: modified key %q (from a read key for a/), presented while other clients are authorized with powerful keys, gains %s; presented alone it grants %d probe operations, the original %d",
							v, a.mod, k, len(a.want), len(orig))
						break attack
					}
				}
			}
		}
		close(stop)
		wg.Wait()
		c := map[string]int{"round": round, "license": v, "modified-keys": len(atts)}
		if fail != "" {
			vkit.ReportFailure(t.Name(), c, fail, "")
			t.Fatal(fail)
		}
		vkit.Record(t.Name(), c, vkit.OK(true, "tamper-concurrent"))
	}
}
