//go:build verif

package c14

// The key is in use by other connections WHILE it is banned / unbanned / a gossiped ban is merged: goroutines keep
// presenting the key (authorization lookups) at full speed. From the moment a toggle is acknowledged, the toggling
// client's own next use of the key must already see the new status - a concurrent lookup may not pin the old one.

import (
	"encoding/json"
	"fmt"
	"os"
	"sync"
	"sync/atomic"
	"testing"

	"github.com/emitter-io/emitter/internal/event"
	"github.com/emitter-io/emitter/internal/security"
	"github.com/emitter-io/emitter/internal/verif/vkit"
)

func TestBanWhileKeyInUse(t *testing.T) {
	rounds := vkit.N(2)
	for round := 0; round < rounds; round++ {
		d, err := os.MkdirTemp(vkit.OutDir(), "c14u")
		if err != nil {
			t.Fatal(err)
		}
		n := &node{name: "00:00:00:00:14:07", dir: d}
		if err := n.start(); err != nil {
			t.Fatal(err)
		}
		key := n.b.Key("#/", security.AllowReadWrite)
		ch := security.ParseChannel([]byte(key + "/a/b/"))
		var stop int32
		var wg sync.WaitGroup
		for g := 0; g < 6; g++ {
			wg.Add(1)
			go func() {
				defer wg.Done()
				for atomic.LoadInt32(&stop) == 0 {
					n.b.S.Authorize(ch, security.AllowRead)
				}
			}()
		}
		c := map[string]int{"round": round}
		fail := ""
		toggles := 120
		for i := 0; i < toggles && fail == ""; i++ {
			want := i%2 == 0 // ban, unban, ban, ...
			if i%6 == 4 || i%6 == 5 {
				// the same status change arrives as gossip from another broker instead of a local request
				st := event.NewState("")
				b := event.Ban(key)
				if want {
					st.Add(&b)
				} else {
					st.Del(&b)
				}
				if _, err := n.b.S.VerifSwarm().OnGossip(st.Encode()[0]); err != nil {
					fail = "merging a gossiped ban: " + err.Error()
					break
				}
			} else {
				pubs, err := n.cl.Request(uint16(i+1), "keyban", map[string]interface{}{"secret": n.b.Master, "target": key, "banned": want})
				var resp struct {
					Status int  `json:"status"`
					Banned bool `json:"banned"`
				}
				if err != nil || len(pubs) != 1 || json.Unmarshal(pubs[0].Payload, &resp) != nil || resp.Status != 200 || resp.Banned != want {
					fail = fmt.Sprintf("keyban(%v) request %d: %v", want, i, err)
					break
				}
			}
			// the acknowledged status is in force for the very next use
			codes, _, err := n.cl.Subscribe(uint16(1000+i), key+"/a/b/")
			if err != nil {
				fail = "subscribe: " + err.Error()
				break
			}
			accepted := codes[0] != 0x80
			if accepted == want {
				fail = fmt.Sprintf("toggle %d: banned=%v was acknowledged (%s) while 6 connections keep presenting the key; the next SUBSCRIBE with it was accepted=%v",
					i, want, map[bool]string{true: "gossip merged", false: "keyban request"}[i%6 >= 4], accepted)
				break
			}
			if accepted {
				n.cl.Unsubscribe(uint16(2000+i), key+"/a/b/")
			}
		}
		atomic.StoreInt32(&stop, 1)
		wg.Wait()
		n.b.S.Close()
		os.RemoveAll(d)
		if fail != "" {
			vkit.ReportFailure(t.Name(), c, fail, "")
			t.Fatal(fail)
		}
		vkit.Record(t.Name(), c, vkit.OK(true, "ban-while-in-use"))
	}
}
