//go:build verif

// C14 — Banning a key takes effect immediately and survives restarts.
package c14

import (
	"encoding/json"
	"fmt"
	"os"
	"path/filepath"
	"sort"
	"testing"

	"time"

	"github.com/emitter-io/emitter/internal/security"
	"github.com/emitter-io/emitter/internal/verif/vkit"
	"github.com/weaveworks/mesh"
	"pgregory.net/rapid"
)

func TestMain(m *testing.M) { vkit.Main(m) }

var timeZero = time.Unix(0, 0)

// Op: ban / unban of key K requested at broker B (0 = A, 1 = B) with the master key; use = an operation presenting
// key K at broker B (How: pub | sub); gossip = everything broker B has broadcast so far is merged at the other broker;
// restart = broker B is closed and re-created on the same state directory; damaged = the same, but the ban file has a
// damaged tail when the broker comes back (the machine went down while the file was being written): the broker may
// refuse to start - then the file is repaired and it is started again - or start with every acknowledged ban in force.
type Op struct {
	K   string `json:"op"`
	B   int    `json:"b"`
	Key int    `json:"key"`
	How string `json:"how,omitempty"`
}

// Case is a history over two brokers and two keys.
type Case struct {
	Ops []Op `json:"ops"`
}

func genCase(t *rapid.T) Case {
	var c Case
	for i, n := 0, rapid.IntRange(1, 30).Draw(t, "nops"); i < n; i++ {
		op := Op{B: rapid.SampledFrom([]int{0, 0, 0, 1}).Draw(t, "b"), Key: rapid.IntRange(0, 1).Draw(t, "key")}
		switch k := rapid.IntRange(0, 19).Draw(t, "kind"); {
		case k < 4:
			op.K = "ban"
		case k < 7:
			op.K = "unban"
		case k < 14:
			op.K = "use"
			op.B = rapid.IntRange(0, 1).Draw(t, "ub")
			op.How = rapid.SampledFrom([]string{"pub", "pub", "sub"}).Draw(t, "how")
		case k < 18:
			op.K = "gossip"
		case k < 19:
			op.K = "restart"
		default:
			op.K = rapid.SampledFrom([]string{"restart", "damaged"}).Draw(t, "restartKind")
		}
		c.Ops = append(c.Ops, op)
		if (op.K == "restart" || op.K == "damaged") && rapid.Bool().Draw(t, "gossipFirst") {
			// the first thing the broker that just came back does is merge what the other one broadcast meanwhile (or long ago)
			c.Ops = append(c.Ops, Op{K: "gossip", B: 1 - op.B})
		}
	}
	return c
}

type capGossip struct{ out [][]byte }

func (c *capGossip) GossipUnicast(dst mesh.PeerName, msg []byte) error { return nil }
func (c *capGossip) GossipBroadcast(update mesh.GossipData) {
	for _, b := range update.Encode() {
		c.out = append(c.out, append([]byte(nil), b...))
	}
}
func (c *capGossip) GossipNeighbourSubset(update mesh.GossipData) {}

type view struct {
	seq    int
	banned bool
}

type node struct {
	b    *vkit.Broker
	cl   *vkit.Client
	cap  *capGossip
	dir  string
	name string
	view [2]view  // what this broker must believe about each key
	sent [][]view // model of each captured payload: per key (seq 0 = not carried)
}

func (n *node) start() (err error) {
	defer func() {
		if p := recover(); p != nil {
			err = fmt.Errorf("refused to start: %v", p)
		}
	}()
	b, err := vkit.NewBroker(vkit.BrokerOpts{Dir: n.dir, Node: n.name, LicSeed: "c14"})
	if err != nil {
		return err
	}
	n.b = b
	n.cap = &capGossip{}
	b.S.VerifSwarm().VerifSetGossip(n.cap)
	n.cl = b.Attach("client-" + n.name)
	return n.cl.Connect("c14", "", nil)
}

func run(c Case) vkit.Result {
	nodes := []*node{{name: "00:00:00:00:14:01"}, {name: "00:00:00:00:14:02"}}
	for _, n := range nodes {
		d, err := os.MkdirTemp(vkit.OutDir(), "c14")
		if err != nil {
			panic(err)
		}
		n.dir = d
		defer os.RemoveAll(d)
		if err := n.start(); err != nil {
			panic(err)
		}
	}
	defer func() {
		for _, n := range nodes {
			n.b.S.Close()
		}
	}()
	keys := []string{nodes[0].b.Key("#/", security.AllowReadWrite), nodes[0].b.Encrypt(nodes[0].b.RawKey("a/#/", security.AllowReadWrite, timeZero, 7))}
	master := nodes[0].b.Master
	seq := 0
	labels := map[string]bool{}
	toggles := map[int]int{}
	nontrivial := false
	for step, op := range c.Ops {
		n := nodes[op.B]
		switch op.K {
		case "ban", "unban":
			want := op.K == "ban"
			before := len(n.cap.out)
			pubs, err := n.cl.Request(uint16(step+1), "keyban", map[string]interface{}{"secret": master, "target": keys[op.Key], "banned": want})
			if err != nil || len(pubs) != 1 {
				return vkit.Failf("step %d: keyban request: %v (%d replies)", step, err, len(pubs))
			}
			var resp struct {
				Status int  `json:"status"`
				Banned bool `json:"banned"`
			}
			if json.Unmarshal(pubs[0].Payload, &resp) != nil || resp.Status != 200 || resp.Banned != want {
				return vkit.Failf("step %d: keyban(%v) answered %s", step, want, pubs[0].Payload)
			}
			for len(n.sent) < before { // payloads that are not ban operations (connection events) carry nothing for the model
				n.sent = append(n.sent, make([]view, 2))
			}
			if n.view[op.Key].banned != want {
				seq++
				n.view[op.Key] = view{seq, want}
				toggles[op.Key]++
				var pv [2]view
				pv[op.Key] = view{seq, want}
				n.sent = append(n.sent, pv[:])
			} else {
				labels["redundant-ban-request"] = true
			}
			if len(n.cap.out) != len(n.sent) {
				return vkit.Failf("step %d: %s acknowledged at broker %d: %d payloads broadcast since, expected %d", step, op.K, op.B, len(n.cap.out)-before, len(n.sent)-before)
			}
		case "use":
			accepted := false
			if op.How == "pub" {
				pubs, err := n.cl.Publish(uint16(step+1), keys[op.Key]+"/a/b/", []byte("x"), false)
				if err != nil {
					return vkit.Failf("step %d: publish: %v", step, err)
				}
				accepted = true
				for _, p := range pubs {
					if _, _, isErr := vkit.IsErrorReply(p); isErr {
						accepted = false
					}
				}
			} else {
				codes, _, err := n.cl.Subscribe(uint16(step+1), keys[op.Key]+"/a/b/")
				if err != nil {
					return vkit.Failf("step %d: subscribe: %v", step, err)
				}
				accepted = codes[0] != 0x80
				if accepted {
					// unsubscribe through the other key so that a ban does not get in the way of the cleanup
					other := keys[1-op.Key]
					if n.view[1-op.Key].banned {
						other = n.b.Key("#/", security.AllowRead)
					}
					if _, err := n.cl.Unsubscribe(uint16(step+1), other+"/a/b/"); err != nil {
						return vkit.Failf("step %d: unsubscribe: %v", step, err)
					}
				}
			}
			if accepted == n.view[op.Key].banned {
				return vkit.Failf("step %d: %s with key %d at broker %d accepted=%v, but the key's acknowledged state there is banned=%v (history %s)",
					step, op.How, op.Key, op.B, accepted, n.view[op.Key].banned, hist(c.Ops[:step+1]))
			}
			if toggles[op.Key] >= 2 {
				nontrivial = true
			}
			if n.view[op.Key].banned {
				labels["use-refused"] = true
			}
		case "gossip":
			dst := nodes[1-op.B]
			for len(n.sent) < len(n.cap.out) {
				n.sent = append(n.sent, make([]view, 2))
			}
			for i, p := range n.cap.out {
				if _, err := dst.b.S.VerifSwarm().OnGossipBroadcast(n.b.S.VerifSwarm().VerifName(), p); err != nil {
					return vkit.Failf("step %d: merging a ban payload: %v", step, err)
				}
				for k, v := range n.sent[i] {
					if v.seq > dst.view[k].seq {
						if dst.view[k].banned != v.banned {
							labels["ban-state-changed-by-gossip"] = true
						}
						dst.view[k] = v
					}
				}
			}
			n.cap.out, n.sent = nil, nil
		case "restart", "damaged":
			if err := n.cl.Close(); err != nil {
				return vkit.Failf("step %d: close: %v", step, err)
			}
			n.b.S.Close()
			pend, pendM := n.cap.out, n.sent
			started := false
			if op.K == "damaged" {
				file := filepath.Join(n.dir, "ban.db")
				if st, err := os.Stat(file); err == nil {
					f, _ := os.OpenFile(file, os.O_APPEND|os.O_WRONLY, 0644)
					if step%2 == 0 {
						f.WriteString("*3\r\n$3\r\nset\r\n$900\r\n\x00\x01a-record-cut-short\r\n") // a torn last record
					} else {
						f.WriteString("\x7f\x13garbage\r\n") // not a record at all
					}
					f.Close()
					labels["ban-file-damaged"] = true
					if err := n.start(); err != nil { // refusing to come up is fine: nothing is accepted then
						labels["ban-file-damaged-refused"] = true
						os.Truncate(file, st.Size())
					} else {
						started = true
					}
				}
			}
			if started {
			} else if err := n.start(); err != nil {
				return vkit.Failf("step %d: broker does not restart on its state directory: %v", step, err)
			}
			n.cap.out, n.sent = pend, pendM // payloads already handed to the transport stay in flight
			labels["restart"] = true
			if toggles[0]+toggles[1] > 0 {
				nontrivial = true
			}
		}
	}
	r := vkit.Result{NonTrivial: nontrivial}
	for l := range labels {
		r.Labels = append(r.Labels, l)
	}
	sort.Strings(r.Labels)
	return r
}

func hist(ops []Op) string {
	s := ""
	for _, o := range ops {
		switch o.K {
		case "use":
			s += fmt.Sprintf("%s(k%d)@%d ", o.How, o.Key, o.B)
		case "gossip":
			s += fmt.Sprintf("gossip %d->%d ", o.B, 1-o.B)
		case "restart", "damaged":
			s += fmt.Sprintf("%s@%d ", o.K, o.B)
		default:
			s += fmt.Sprintf("%s(k%d)@%d ", o.K, o.Key, o.B)
		}
	}
	return s
}

func TestBan(t *testing.T) { vkit.Check(t, genCase, run) }
