//go:build verif

package c14

import (
	"encoding/json"
	"fmt"
	"os"
	"testing"
	"time"

	"github.com/emitter-io/emitter/internal/security"
	"github.com/emitter-io/emitter/internal/verif/vkit"
	"pgregory.net/rapid"
)

// Crash variant: the broker runs in a re-executed child process on a state directory; "kill" is a SIGKILL of that
// process right after an acknowledgement (no clean Close), followed by a fresh process on the same directory.

// KOp: ban / unban / use of key Key, or kill.
type KOp struct {
	K   string `json:"op"`
	Key int    `json:"key"`
}

// KillCase is a history on one broker.
type KillCase struct {
	Ops []KOp `json:"ops"`
}

func genKillCase(t *rapid.T) KillCase {
	var c KillCase
	for i, n := 0, rapid.IntRange(2, 14).Draw(t, "nops"); i < n; i++ {
		c.Ops = append(c.Ops, KOp{K: rapid.SampledFrom([]string{"ban", "ban", "unban", "use", "use", "kill", "kill"}).Draw(t, "op"), Key: rapid.IntRange(0, 1).Draw(t, "key")})
	}
	c.Ops = append(c.Ops, KOp{K: "kill"}, KOp{K: "use", Key: 0}, KOp{K: "use", Key: 1})
	return c
}

type kreq struct {
	Op  string `json:"op"`
	Key int    `json:"key"`
}

var kchild struct {
	b    *vkit.Broker
	cl   *vkit.Client
	keys []string
}

func init() {
	vkit.RegisterWorker("c14", func(in []byte) []byte {
		var r kreq
		json.Unmarshal(in, &r)
		if kchild.b == nil {
			b, err := vkit.NewBroker(vkit.BrokerOpts{Dir: os.Getenv("VERIF_C14_DIR"), Node: "00:00:00:00:14:09", LicSeed: "c14"})
			if err != nil {
				return []byte("ERR start: " + err.Error())
			}
			kchild.b = b
			kchild.keys = []string{b.Key("#/", security.AllowReadWrite), b.Encrypt(b.RawKey("a/#/", security.AllowReadWrite, timeZero, 7))}
			kchild.cl = b.Attach("c14-child")
			if err := kchild.cl.Connect("c14", "", nil); err != nil {
				return []byte("ERR connect: " + err.Error())
			}
		}
		switch r.Op {
		case "ban", "unban":
			pubs, err := kchild.cl.Request(7, "keyban", map[string]interface{}{"secret": kchild.b.Master, "target": kchild.keys[r.Key], "banned": r.Op == "ban"})
			if err != nil || len(pubs) != 1 {
				return []byte(fmt.Sprintf("ERR keyban: %v", err))
			}
			return pubs[0].Payload
		case "use":
			pubs, err := kchild.cl.Publish(8, kchild.keys[r.Key]+"/a/b/", []byte("x"), false)
			if err != nil {
				return []byte("ERR publish: " + err.Error())
			}
			for _, p := range pubs {
				if _, _, isErr := vkit.IsErrorReply(p); isErr {
					return []byte("refused")
				}
			}
			return []byte("accepted")
		}
		return []byte("ERR unknown op")
	})
}

func runKillCase(c KillCase) vkit.Result {
	dir, err := os.MkdirTemp(vkit.OutDir(), "c14k")
	if err != nil {
		panic(err)
	}
	defer os.RemoveAll(dir)
	var w *vkit.Worker
	start := func() {
		w, err = vkit.StartWorker("c14", 0, "VERIF_C14_DIR="+dir)
		if err != nil {
			panic(err)
		}
	}
	start()
	defer func() { w.Kill() }()
	banned := [2]bool{}
	toggled, killsAfterToggle := false, 0
	for step, op := range c.Ops {
		if op.K == "kill" {
			w.Kill()
			start()
			if toggled {
				killsAfterToggle++
			}
			continue
		}
		in, _ := json.Marshal(kreq{op.K, op.Key})
		out, err := w.Do(in, 60*time.Second)
		if err != nil {
			return vkit.Failf("step %d (%+v): broker process: %v", step, op, err)
		}
		res := string(out)
		switch op.K {
		case "ban", "unban":
			var resp struct {
				Status int  `json:"status"`
				Banned bool `json:"banned"`
			}
			if json.Unmarshal(out, &resp) != nil || resp.Status != 200 || resp.Banned != (op.K == "ban") {
				return vkit.Failf("step %d: %s answered %s", step, op.K, res)
			}
			banned[op.Key] = op.K == "ban"
			toggled = true
		case "use":
			if (res == "accepted") == banned[op.Key] || (res != "accepted" && res != "refused") {
				return vkit.Failf("step %d: after %d process kill(s), use of key %d is %q but its acknowledged state is banned=%v (history %+v)", step, killsAfterToggle, op.Key, res, banned[op.Key], c.Ops[:step+1])
			}
		}
	}
	return vkit.OK(killsAfterToggle > 0, "process-kill")
}

func TestBanSurvivesKill(t *testing.T) { vkit.Check(t, genKillCase, runKillCase) }
