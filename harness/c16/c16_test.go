//go:build verif

// C16 — The MQTT codec agrees with MQTT 3.1.1 for every packet it handles.
// Differential property test: a neutral packet description is turned independently into an emitter value and a
// paho value; emitter bytes are decoded by paho, paho bytes by emitter, emitter bytes by emitter, and both byte
// strings are compared with each other and with an independent remaining-length encoder.
package c16

import (
	"bytes"
	"fmt"
	"reflect"
	"runtime"
	"sort"
	"sync"
	"testing"

	"github.com/eclipse/paho.mqtt.golang/packets"
	"github.com/emitter-io/emitter/internal/network/mqtt"
	"github.com/emitter-io/emitter/internal/verif/vkit"
	"pgregory.net/rapid"
)

func TestMain(m *testing.M) { vkit.Main(m) }

// Str describes a byte string compactly: N bytes Fill, Fill+1, ...
type Str struct {
	N    int  `json:"n"`
	Fill byte `json:"fill"`
}

func (s Str) Bytes() []byte {
	b := make([]byte, s.N)
	for i := range b {
		b[i] = s.Fill + byte(i)
	}
	return b
}

// TopicQ is a (topic, qos) tuple.
type TopicQ struct {
	Topic Str `json:"topic"`
	QoS   int `json:"qos"`
}

// Pkt is the neutral description of an MQTT 3.1.1 control packet.
type Pkt struct {
	T       int      `json:"type"`
	Dup     bool     `json:"dup,omitempty"`
	Retain  bool     `json:"retain,omitempty"`
	QoS     int      `json:"qos,omitempty"`
	MID     int      `json:"mid,omitempty"`
	PN      string   `json:"pn,omitempty"`
	Ver     int      `json:"ver,omitempty"`
	UF      bool     `json:"uf,omitempty"`
	PF      bool     `json:"pf,omitempty"`
	WR      bool     `json:"wr,omitempty"`
	WF      bool     `json:"wf,omitempty"`
	CS      bool     `json:"cs,omitempty"`
	WQ      int      `json:"wq,omitempty"`
	KA      int      `json:"ka,omitempty"`
	CID     Str      `json:"cid"`
	WT      Str      `json:"wt"`
	WM      Str      `json:"wm"`
	UN      Str      `json:"un"`
	PW      Str      `json:"pw"`
	RC      int      `json:"rc,omitempty"`
	Topic   Str      `json:"topic"`
	Payload Str      `json:"payload"`
	Topics  []TopicQ `json:"topics,omitempty"`
	Codes   []int    `json:"codes,omitempty"`
}

// remaining-length boundaries the generator aims the packet body at
var targets = []int{0, 1, 2, 10, 126, 127, 128, 129, 1000, 16382, 16383, 16384, 16385, 40000, 65000, 65529, 65530, 65531, 65533, 65535, 65536, 65537}

func genStr(t *rapid.T, label string, max int) Str {
	n := rapid.SampledFrom([]int{0, 0, 1, 2, 5, 17, 100, 127, 128, 300, 5000}).Draw(t, label+"len")
	if n > max {
		n = max
	}
	return Str{N: n, Fill: rapid.Byte().Draw(t, label+"fill")}
}

func genMID(t *rapid.T) int {
	return rapid.SampledFrom([]int{0, 1, 2, 255, 256, 4660, 65534, 65535}).Draw(t, "mid")
}

func genPkt(t *rapid.T) Pkt {
	p := Pkt{T: rapid.IntRange(1, 14).Draw(t, "type")}
	target := rapid.SampledFrom(targets).Draw(t, "target")
	aim := rapid.IntRange(0, 2).Draw(t, "aim") > 0
	switch p.T {
	case 1:
		p.PN = rapid.SampledFrom([]string{"MQTT", "MQTT", "MQIsdp", ""}).Draw(t, "pn")
		p.Ver = rapid.SampledFrom([]int{4, 4, 3, 0, 5, 131}).Draw(t, "ver")
		p.UF, p.PF, p.WF, p.CS = rapid.Bool().Draw(t, "uf"), rapid.Bool().Draw(t, "pf"), rapid.Bool().Draw(t, "wf"), rapid.Bool().Draw(t, "cs")
		p.KA = rapid.SampledFrom([]int{0, 1, 60, 255, 256, 65535}).Draw(t, "ka")
		p.CID = genStr(t, "cid", 5000)
		if p.WF {
			p.WR, p.WQ = rapid.Bool().Draw(t, "wr"), rapid.IntRange(0, 2).Draw(t, "wq")
			p.WT, p.WM = genStr(t, "wt", 5000), genStr(t, "wm", 5000)
		}
		if p.UF {
			p.UN = genStr(t, "un", 5000)
		}
		if p.PF {
			p.PW = genStr(t, "pw", 5000)
		}
		if aim { // pad the client id so that the body hits the target length
			if d := target - bodyLen(p); d > 0 && p.CID.N+d <= 65535 {
				p.CID.N += d
			}
		}
	case 2:
		p.RC = rapid.IntRange(0, 5).Draw(t, "rc")
	case 3:
		p.Dup, p.Retain, p.QoS = rapid.Bool().Draw(t, "dup"), rapid.Bool().Draw(t, "ret"), rapid.IntRange(0, 2).Draw(t, "qos")
		if p.QoS > 0 {
			p.MID = genMID(t)
		}
		p.Topic, p.Payload = genStr(t, "topic", 5000), genStr(t, "pl", 5000)
		if aim {
			if d := target - bodyLen(p); d > 0 {
				p.Payload.N += d
			} else if d < 0 && p.Payload.N+d >= 0 {
				p.Payload.N += d
			}
		}
	case 4, 5, 7, 11:
		p.MID = genMID(t)
	case 6:
		p.MID, p.QoS = genMID(t), 1 // [MQTT-3.6.1-1] reserved flags 0010
	case 8, 10:
		p.MID, p.QoS = genMID(t), 1 // [MQTT-3.8.1-1], [MQTT-3.10.1-1]
		for i, n := 0, rapid.IntRange(1, 5).Draw(t, "ntopics"); i < n; i++ {
			tq := TopicQ{Topic: genStr(t, "t", 3000)}
			if tq.Topic.N == 0 {
				tq.Topic.N = 1 // [MQTT-4.7.3-1] topic filters are at least one character long
			}
			if p.T == 8 {
				tq.QoS = rapid.IntRange(0, 2).Draw(t, "tq")
			}
			p.Topics = append(p.Topics, tq)
		}
		if aim {
			if d := target - bodyLen(p); d > 0 && p.Topics[0].Topic.N+d <= 65535 {
				p.Topics[0].Topic.N += d
			}
		}
	case 9:
		p.MID = genMID(t)
		n := rapid.IntRange(0, 5).Draw(t, "ncodes")
		if aim && target >= 2 && target <= 1000 {
			n = target - 2
		}
		for i := 0; i < n; i++ {
			p.Codes = append(p.Codes, rapid.SampledFrom([]int{0, 1, 2, 0x80}).Draw(t, "code"))
		}
	}
	return p
}

// bodyLen is the remaining length the packet must have according to MQTT 3.1.1 (independent of both codecs).
func bodyLen(p Pkt) int {
	switch p.T {
	case 1:
		n := 2 + len(p.PN) + 1 + 1 + 2 + 2 + p.CID.N
		if p.WF {
			n += 2 + p.WT.N + 2 + p.WM.N
		}
		if p.UF {
			n += 2 + p.UN.N
		}
		if p.PF {
			n += 2 + p.PW.N
		}
		return n
	case 2:
		return 2
	case 3:
		n := 2 + p.Topic.N + p.Payload.N
		if p.QoS > 0 {
			n += 2
		}
		return n
	case 4, 5, 6, 7, 11:
		return 2
	case 8:
		n := 2
		for _, t := range p.Topics {
			n += 2 + t.Topic.N + 1
		}
		return n
	case 9:
		return 2 + len(p.Codes)
	case 10:
		n := 2
		for _, t := range p.Topics {
			n += 2 + t.Topic.N
		}
		return n
	}
	return 0
}

// remLen is the 4-line reference encoder of the remaining length.
func remLen(n int) []byte {
	var out []byte
	for {
		d := byte(n % 128)
		n /= 128
		if n > 0 {
			d |= 0x80
		}
		out = append(out, d)
		if n == 0 {
			return out
		}
	}
}

func toEmitter(p Pkt) mqtt.Message {
	h := mqtt.Header{DUP: p.Dup, QOS: uint8(p.QoS), Retain: p.Retain}
	switch p.T {
	case 1:
		c := &mqtt.Connect{ProtoName: []byte(p.PN), Version: uint8(p.Ver), UsernameFlag: p.UF, PasswordFlag: p.PF, WillRetainFlag: p.WR, WillQOS: uint8(p.WQ),
			WillFlag: p.WF, CleanSeshFlag: p.CS, KeepAlive: uint16(p.KA), ClientID: p.CID.Bytes()}
		if p.WF {
			c.WillTopic, c.WillMessage = p.WT.Bytes(), p.WM.Bytes()
		}
		if p.UF {
			c.Username = p.UN.Bytes()
		}
		if p.PF {
			c.Password = p.PW.Bytes()
		}
		return c
	case 2:
		return &mqtt.Connack{ReturnCode: uint8(p.RC)}
	case 3:
		return &mqtt.Publish{Header: h, MessageID: uint16(p.MID), Topic: p.Topic.Bytes(), Payload: p.Payload.Bytes()}
	case 4:
		return &mqtt.Puback{MessageID: uint16(p.MID)}
	case 5:
		return &mqtt.Pubrec{MessageID: uint16(p.MID)}
	case 6:
		return &mqtt.Pubrel{Header: h, MessageID: uint16(p.MID)}
	case 7:
		return &mqtt.Pubcomp{MessageID: uint16(p.MID)}
	case 8:
		s := &mqtt.Subscribe{Header: h, MessageID: uint16(p.MID)}
		for _, t := range p.Topics {
			s.Subscriptions = append(s.Subscriptions, mqtt.TopicQOSTuple{Qos: uint8(t.QoS), Topic: t.Topic.Bytes()})
		}
		return s
	case 9:
		s := &mqtt.Suback{MessageID: uint16(p.MID)}
		for _, c := range p.Codes {
			s.Qos = append(s.Qos, uint8(c))
		}
		return s
	case 10:
		s := &mqtt.Unsubscribe{Header: h, MessageID: uint16(p.MID)}
		for _, t := range p.Topics {
			s.Topics = append(s.Topics, mqtt.TopicQOSTuple{Topic: t.Topic.Bytes()})
		}
		return s
	case 11:
		return &mqtt.Unsuback{MessageID: uint16(p.MID)}
	case 12:
		return &mqtt.Pingreq{}
	case 13:
		return &mqtt.Pingresp{}
	}
	return &mqtt.Disconnect{}
}

func toPaho(p Pkt) packets.ControlPacket {
	cp := packets.NewControlPacket(byte(p.T))
	switch x := cp.(type) {
	case *packets.ConnectPacket:
		x.ProtocolName, x.ProtocolVersion = p.PN, byte(p.Ver)
		x.UsernameFlag, x.PasswordFlag, x.WillRetain, x.WillQos, x.WillFlag, x.CleanSession = p.UF, p.PF, p.WR, byte(p.WQ), p.WF, p.CS
		x.Keepalive, x.ClientIdentifier = uint16(p.KA), string(p.CID.Bytes())
		if p.WF {
			x.WillTopic, x.WillMessage = string(p.WT.Bytes()), p.WM.Bytes()
		}
		if p.UF {
			x.Username = string(p.UN.Bytes())
		}
		if p.PF {
			x.Password = p.PW.Bytes()
		}
	case *packets.ConnackPacket:
		x.ReturnCode = byte(p.RC)
	case *packets.PublishPacket:
		x.Dup, x.Qos, x.Retain = p.Dup, byte(p.QoS), p.Retain
		x.MessageID, x.TopicName, x.Payload = uint16(p.MID), string(p.Topic.Bytes()), p.Payload.Bytes()
	case *packets.PubackPacket:
		x.MessageID = uint16(p.MID)
	case *packets.PubrecPacket:
		x.MessageID = uint16(p.MID)
	case *packets.PubrelPacket:
		x.MessageID = uint16(p.MID)
	case *packets.PubcompPacket:
		x.MessageID = uint16(p.MID)
	case *packets.SubscribePacket:
		x.MessageID = uint16(p.MID)
		for _, t := range p.Topics {
			x.Topics = append(x.Topics, string(t.Topic.Bytes()))
			x.Qoss = append(x.Qoss, byte(t.QoS))
		}
	case *packets.SubackPacket:
		x.MessageID = uint16(p.MID)
		for _, c := range p.Codes {
			x.ReturnCodes = append(x.ReturnCodes, byte(c))
		}
	case *packets.UnsubscribePacket:
		x.MessageID = uint16(p.MID)
		for _, t := range p.Topics {
			x.Topics = append(x.Topics, string(t.Topic.Bytes()))
		}
	case *packets.UnsubackPacket:
		x.MessageID = uint16(p.MID)
	}
	return cp
}

type fields map[string]interface{}

func fieldsK(p Pkt) fields {
	f := fields{"type": p.T}
	hdr := func() { f["dup"], f["qos"], f["retain"] = p.Dup, p.QoS, p.Retain }
	switch p.T {
	case 1:
		f["pn"], f["ver"], f["uf"], f["pf"], f["wr"], f["wq"], f["wf"], f["cs"], f["ka"], f["cid"] = p.PN, p.Ver, p.UF, p.PF, p.WR, p.WQ, p.WF, p.CS, p.KA, string(p.CID.Bytes())
		f["wt"], f["wm"], f["un"], f["pw"] = "", "", "", ""
		if p.WF {
			f["wt"], f["wm"] = string(p.WT.Bytes()), string(p.WM.Bytes())
		}
		if p.UF {
			f["un"] = string(p.UN.Bytes())
		}
		if p.PF {
			f["pw"] = string(p.PW.Bytes())
		}
	case 2:
		f["rc"] = p.RC
	case 3:
		hdr()
		f["topic"], f["mid"], f["payload"] = string(p.Topic.Bytes()), p.MID, string(p.Payload.Bytes())
	case 4, 5, 7, 11:
		f["mid"] = p.MID
	case 6:
		hdr()
		f["mid"] = p.MID
	case 8:
		hdr()
		f["mid"] = p.MID
		ts := []string{}
		for _, t := range p.Topics {
			ts = append(ts, fmt.Sprintf("%d:%s", t.QoS, t.Topic.Bytes()))
		}
		f["topics"] = fmt.Sprint(ts)
	case 9:
		f["mid"] = p.MID
		cs := []byte{}
		for _, c := range p.Codes {
			cs = append(cs, byte(c))
		}
		f["codes"] = fmt.Sprint(cs)
	case 10:
		hdr()
		f["mid"] = p.MID
		ts := []string{}
		for _, t := range p.Topics {
			ts = append(ts, string(t.Topic.Bytes()))
		}
		f["topics"] = fmt.Sprint(ts)
	}
	return f
}

func fieldsE(m mqtt.Message) fields {
	f := fields{"type": int(m.Type())}
	hdr := func(h mqtt.Header) { f["dup"], f["qos"], f["retain"] = h.DUP, int(h.QOS), h.Retain }
	switch p := m.(type) {
	case *mqtt.Connect:
		f["pn"], f["ver"], f["uf"], f["pf"], f["wr"], f["wq"], f["wf"], f["cs"], f["ka"], f["cid"] = string(p.ProtoName), int(p.Version), p.UsernameFlag, p.PasswordFlag, p.WillRetainFlag, int(p.WillQOS), p.WillFlag, p.CleanSeshFlag, int(p.KeepAlive), string(p.ClientID)
		f["wt"], f["wm"], f["un"], f["pw"] = string(p.WillTopic), string(p.WillMessage), string(p.Username), string(p.Password)
	case *mqtt.Connack:
		f["rc"] = int(p.ReturnCode)
	case *mqtt.Publish:
		hdr(p.Header)
		f["topic"], f["mid"], f["payload"] = string(p.Topic), int(p.MessageID), string(p.Payload)
	case *mqtt.Puback:
		f["mid"] = int(p.MessageID)
	case *mqtt.Pubrec:
		f["mid"] = int(p.MessageID)
	case *mqtt.Pubrel:
		hdr(p.Header)
		f["mid"] = int(p.MessageID)
	case *mqtt.Pubcomp:
		f["mid"] = int(p.MessageID)
	case *mqtt.Subscribe:
		hdr(p.Header)
		f["mid"] = int(p.MessageID)
		ts := []string{}
		for _, s := range p.Subscriptions {
			ts = append(ts, fmt.Sprintf("%d:%s", s.Qos, s.Topic))
		}
		f["topics"] = fmt.Sprint(ts)
	case *mqtt.Suback:
		f["mid"] = int(p.MessageID)
		f["codes"] = fmt.Sprint(append([]byte{}, p.Qos...))
	case *mqtt.Unsubscribe:
		hdr(p.Header)
		f["mid"] = int(p.MessageID)
		ts := []string{}
		for _, s := range p.Topics {
			ts = append(ts, string(s.Topic))
		}
		f["topics"] = fmt.Sprint(ts)
	case *mqtt.Unsuback:
		f["mid"] = int(p.MessageID)
	}
	return f
}

func fieldsP(m packets.ControlPacket) fields {
	f := fields{}
	hdr := func(h packets.FixedHeader) { f["dup"], f["qos"], f["retain"] = h.Dup, int(h.Qos), h.Retain }
	switch p := m.(type) {
	case *packets.ConnectPacket:
		f["type"] = 1
		f["pn"], f["ver"], f["uf"], f["pf"], f["wr"], f["wq"], f["wf"], f["cs"], f["ka"], f["cid"] = p.ProtocolName, int(p.ProtocolVersion), p.UsernameFlag, p.PasswordFlag, p.WillRetain, int(p.WillQos), p.WillFlag, p.CleanSession, int(p.Keepalive), p.ClientIdentifier
		f["wt"], f["wm"], f["un"], f["pw"] = p.WillTopic, string(p.WillMessage), p.Username, string(p.Password)
	case *packets.ConnackPacket:
		f["type"] = 2
		f["rc"] = int(p.ReturnCode)
	case *packets.PublishPacket:
		f["type"] = 3
		hdr(p.FixedHeader)
		f["topic"], f["mid"], f["payload"] = p.TopicName, int(p.MessageID), string(p.Payload)
	case *packets.PubackPacket:
		f["type"], f["mid"] = 4, int(p.MessageID)
	case *packets.PubrecPacket:
		f["type"], f["mid"] = 5, int(p.MessageID)
	case *packets.PubrelPacket:
		f["type"], f["mid"] = 6, int(p.MessageID)
		hdr(p.FixedHeader)
	case *packets.PubcompPacket:
		f["type"], f["mid"] = 7, int(p.MessageID)
	case *packets.SubscribePacket:
		f["type"], f["mid"] = 8, int(p.MessageID)
		hdr(p.FixedHeader)
		ts := []string{}
		for i, s := range p.Topics {
			ts = append(ts, fmt.Sprintf("%d:%s", p.Qoss[i], s))
		}
		f["topics"] = fmt.Sprint(ts)
	case *packets.SubackPacket:
		f["type"], f["mid"] = 9, int(p.MessageID)
		f["codes"] = fmt.Sprint(append([]byte{}, p.ReturnCodes...))
	case *packets.UnsubscribePacket:
		f["type"], f["mid"] = 10, int(p.MessageID)
		hdr(p.FixedHeader)
		f["topics"] = fmt.Sprint(append([]string{}, p.Topics...))
	case *packets.UnsubackPacket:
		f["type"], f["mid"] = 11, int(p.MessageID)
	case *packets.PingreqPacket:
		f["type"] = 12
	case *packets.PingrespPacket:
		f["type"] = 13
	case *packets.DisconnectPacket:
		f["type"] = 14
	}
	return f
}

func diff(a, b fields) string {
	var keys []string
	for k := range a {
		keys = append(keys, k)
	}
	for k := range b {
		if _, ok := a[k]; !ok {
			keys = append(keys, k)
		}
	}
	sort.Strings(keys)
	out := ""
	for _, k := range keys {
		if !reflect.DeepEqual(a[k], b[k]) {
			out += fmt.Sprintf(" %s: %s vs %s;", k, short(a[k]), short(b[k]))
		}
	}
	return out
}

func short(v interface{}) string {
	s := fmt.Sprintf("%q", fmt.Sprint(v))
	if len(s) > 40 {
		return fmt.Sprintf("%s…(%d)", s[:30], len(s))
	}
	return s
}

const maxSize = 65536

func run(p Pkt) vkit.Result {
	want := fieldsK(p)
	body := bodyLen(p)
	if body > maxSize { // the size limit of the codec (MaxMessageSize) bounds the packet body; anything up to it must be handled
		return vkit.Result{Excluded: true, Labels: []string{"over-64KiB"}}
	}
	var be bytes.Buffer
	if _, err := toEmitter(p).EncodeTo(&be); err != nil {
		return vkit.Failf("emitter refuses to encode a %d-byte packet: %v", body, err)
	}
	rawE := append([]byte(nil), be.Bytes()...)
	// (4) fixed header: type/flags byte and remaining length against the independent encoder
	rl := remLen(body)
	if len(rawE) != 1+len(rl)+body || !bytes.Equal(rawE[1:1+len(rl)], rl) {
		return vkit.Failf("emitter encoding: total %d bytes, remaining-length bytes % x; MQTT 3.1.1 requires body %d encoded as % x", len(rawE), rawE[1:min(5, len(rawE))], body, rl)
	}
	// (1) emitter bytes -> paho
	cp, err := packets.ReadPacket(bytes.NewReader(rawE))
	if err != nil {
		return vkit.Failf("independent decoder rejects emitter's encoding: %v", err)
	}
	if d := diff(want, fieldsP(cp)); d != "" {
		return vkit.Failf("emitter encode -> independent decode differs from the packet value:%s", d)
	}
	// (2) paho bytes -> emitter
	var bp bytes.Buffer
	if err := toPaho(p).Write(&bp); err != nil {
		return vkit.Failf("harness: paho cannot encode: %v", err)
	}
	rawP := bp.Bytes()
	m2, err := mqtt.DecodePacket(bytes.NewReader(rawP), maxSize)
	if err != nil {
		return vkit.Failf("emitter rejects the independent encoder's bytes (%d bytes): %v", len(rawP), err)
	}
	if d := diff(want, fieldsE(m2)); d != "" {
		return vkit.Failf("independent encode -> emitter decode differs from the packet value:%s", d)
	}
	// byte equality (MQTT encodings of well-formed packets are canonical)
	if !bytes.Equal(rawE, rawP) {
		i := 0
		for i < len(rawE) && i < len(rawP) && rawE[i] == rawP[i] {
			i++
		}
		return vkit.Failf("emitter and the independent encoder produce different bytes (lengths %d/%d, first difference at offset %d)", len(rawE), len(rawP), i)
	}
	// (3) round trip
	m3, err := mqtt.DecodePacket(bytes.NewReader(rawE), maxSize)
	if err != nil {
		return vkit.Failf("emitter cannot decode its own encoding: %v", err)
	}
	if d := diff(want, fieldsE(m3)); d != "" {
		return vkit.Failf("decode(encode(v)) != v:%s", d)
	}
	// (5) the bytes of a packet are a function of that packet alone: whatever was encoded just before (same size and
	// type, other flags / ids / contents - the encoder re-uses pooled buffers), the encoding is the same again
	for vi, q := range variants(p) {
		var bq, again bytes.Buffer
		var ref bytes.Buffer
		if _, err := toEmitter(q).EncodeTo(&bq); err != nil {
			return vkit.Failf("emitter refuses to encode variant %d of the packet: %v", vi, err)
		}
		if err := toPaho(q).Write(&ref); err == nil && !bytes.Equal(bq.Bytes(), ref.Bytes()) {
			return vkit.Failf("a packet encoded right after another one of the same type and size (variant %d: %+v after %+v) differs from the independent encoding: first bytes % x vs % x", vi, head(q), head(p), bq.Bytes()[:min(4, bq.Len())], ref.Bytes()[:min(4, ref.Len())])
		}
		if _, err := toEmitter(p).EncodeTo(&again); err != nil || !bytes.Equal(again.Bytes(), rawE) {
			return vkit.Failf("the same packet encodes differently after another packet of the same type and size was encoded (variant %d): first bytes % x, before % x", vi, again.Bytes()[:min(4, again.Len())], rawE[:min(4, len(rawE))])
		}
	}
	labels := []string{fmt.Sprintf("type-%02d", p.T), fmt.Sprintf("remlen-bytes-%d", len(rl))}
	for _, b := range []int{0, 127, 128, 16383, 16384} {
		if body == b {
			labels = append(labels, fmt.Sprintf("boundary-%d", b))
		}
	}
	nontrivial := len(rl) >= 2 || p.Dup || p.Retain || p.QoS > 0 || p.UF || p.PF || p.WF || p.CS || p.RC != 0
	return vkit.Result{NonTrivial: nontrivial, Labels: labels}
}

// variants: packets of the same type and the same encoded size that differ in flags, ids or contents.
func variants(p Pkt) []Pkt {
	var out []Pkt
	switch p.T {
	case 3:
		a, b, c := p, p, p
		a.Retain = !p.Retain
		b.Dup = !p.Dup
		c.Topic.Fill, c.Payload.Fill = p.Topic.Fill+1, p.Payload.Fill+1
		out = append(out, a, b, c)
		if p.QoS > 0 {
			d := p
			d.QoS, d.MID = 3-p.QoS, p.MID^0x0101
			out = append(out, d)
		}
	case 2:
		a := p
		a.RC = (p.RC + 1) % 6
		out = append(out, a)
	case 4, 5, 6, 7, 11:
		a := p
		a.MID = p.MID ^ 0x0101
		out = append(out, a)
	case 1:
		a := p
		a.CS, a.KA = !p.CS, p.KA^0x0101
		out = append(out, a)
	}
	return out
}

func head(p Pkt) string {
	return fmt.Sprintf("{type %d dup %v retain %v qos %d mid %d}", p.T, p.Dup, p.Retain, p.QoS, p.MID)
}

func TestCodecDifferential(t *testing.T) { vkit.Check(t, genPkt, run) }

// FuzzDecode: any byte string the independent decoder accepts as exactly one well-formed packet within the size
// limit must be accepted by emitter with equal fields.
func FuzzDecode(f *testing.F) {
	for _, p := range []Pkt{
		{T: 1, PN: "MQTT", Ver: 4, CS: true, KA: 60, CID: Str{N: 3, Fill: 'a'}},
		{T: 1, PN: "MQTT", Ver: 4, WF: true, WQ: 1, WR: true, WT: Str{N: 3, Fill: 'a'}, WM: Str{N: 2, Fill: 'x'}, UF: true, UN: Str{N: 2, Fill: 'u'}, PF: true, PW: Str{N: 2, Fill: 'p'}},
		{T: 3, QoS: 1, MID: 7, Topic: Str{N: 5, Fill: 'a'}, Payload: Str{N: 200, Fill: 'b'}},
		{T: 3, Topic: Str{N: 1, Fill: 'a'}},
		{T: 8, QoS: 1, MID: 9, Topics: []TopicQ{{Topic: Str{N: 4, Fill: 'a'}, QoS: 1}, {Topic: Str{N: 1, Fill: 'b'}}}},
		{T: 10, QoS: 1, MID: 9, Topics: []TopicQ{{Topic: Str{N: 4, Fill: 'a'}}}},
		{T: 9, MID: 3, Codes: []int{0, 1, 0x80}}, {T: 2, RC: 5}, {T: 4, MID: 1}, {T: 6, QoS: 1, MID: 2}, {T: 12}, {T: 14},
	} {
		var b bytes.Buffer
		toPaho(p).Write(&b)
		f.Add(b.Bytes())
	}
	f.Fuzz(func(t *testing.T, data []byte) {
		if len(data) > maxSize || len(data) < 2 {
			return
		}
		// the harness parses the fixed header itself first: the reference decoder allocates whatever length is declared
		// (a 5+ byte length run overflows it), and the property only speaks of packets within the size limit
		rl, n, ok := 0, 0, false
		for i := 1; i < len(data) && i <= 4; i++ {
			rl |= int(data[i]&0x7f) << (7 * uint(i-1))
			if data[i]&0x80 == 0 {
				n, ok = i, true
				break
			}
		}
		if !ok || rl != len(data)-1-n {
			return
		}
		rd := bytes.NewReader(data)
		cp, err := packets.ReadPacket(rd)
		if err != nil || rd.Len() != 0 {
			return
		}
		// re-encode with the independent codec: only canonical, well-formed packets are in scope
		var b bytes.Buffer
		if cp.Write(&b) != nil || !bytes.Equal(b.Bytes(), data) {
			return
		}
		if !wellFormed(cp) {
			return
		}
		m, err := mqtt.DecodePacket(bytes.NewReader(data), maxSize)
		if err != nil {
			t.Fatalf("emitter rejects a packet the independent implementation accepts: %v (% x)", err, data[:min(len(data), 40)])
		}
		if d := diff(fieldsP(cp), fieldsE(m)); d != "" {
			t.Fatalf("decoders disagree:%s", d)
		}
		vkit.RecordRaw("FuzzDecode", data, vkit.OK(len(data) > 2, "fuzz-seed-or-input"))
	})
}

// wellFormed filters out packets MQTT 3.1.1 declares malformed but paho's reader lets through.
func wellFormed(cp packets.ControlPacket) bool {
	switch p := cp.(type) {
	case *packets.PublishPacket:
		return p.Qos <= 2
	case *packets.ConnectPacket:
		if p.WillQos > 2 || p.ReservedBit != 0 {
			return false
		}
		if !p.WillFlag && (p.WillQos != 0 || p.WillRetain) {
			return false
		}
		return true
	case *packets.SubscribePacket:
		if p.Qos != 1 || p.Dup || p.Retain || len(p.Topics) == 0 {
			return false
		}
		for _, t := range p.Topics {
			if t == "" {
				return false
			}
		}
		return true
	case *packets.UnsubscribePacket:
		if p.Qos != 1 || p.Dup || p.Retain || len(p.Topics) == 0 {
			return false
		}
		for _, t := range p.Topics {
			if t == "" {
				return false
			}
		}
		return true
	case *packets.PubrelPacket:
		return p.Qos == 1 && !p.Dup && !p.Retain
	}
	return true
}

// ---------------------------------------------------------------------------------------------
// Concurrent encoders: the broker encodes on many goroutines at once (one per publisher / connection) and all of
// them draw from one pool of encode buffers. Whatever the schedule, each encoder must emit the bytes the reference
// encoder gives for ITS packet.

// ConcCase is a set of packets, one batch per goroutine.
type ConcCase struct {
	Per    [][]Pkt `json:"per"`
	Rounds int     `json:"rounds"`
}

func genConc(t *rapid.T) ConcCase {
	c := ConcCase{Rounds: rapid.IntRange(5, 40).Draw(t, "rounds")}
	g := rapid.IntRange(2, 8).Draw(t, "goroutines")
	for i := 0; i < g; i++ {
		var ps []Pkt
		for j, n := 0, rapid.IntRange(1, 4).Draw(t, "n"); j < n; j++ {
			p := genPkt(t)
			if bodyLen(p)+5 > maxSize-1 {
				continue
			}
			ps = append(ps, p)
		}
		c.Per = append(c.Per, ps)
	}
	return c
}

type yieldWriter struct{ b bytes.Buffer }

func (w *yieldWriter) Write(p []byte) (int, error) {
	runtime.Gosched() // the encoder still owns its pooled buffer here
	return w.b.Write(p)
}

func runConc(c ConcCase) vkit.Result {
	type job struct {
		m    mqtt.Message
		want []byte
	}
	jobs := make([][]job, len(c.Per))
	distinct := map[string]bool{}
	for i, ps := range c.Per {
		for _, p := range ps {
			var bp bytes.Buffer
			if err := toPaho(p).Write(&bp); err != nil {
				return vkit.Failf("harness: paho cannot encode: %v", err)
			}
			jobs[i] = append(jobs[i], job{toEmitter(p), append([]byte(nil), bp.Bytes()...)})
			distinct[string(bp.Bytes())] = true
		}
	}
	errs := make([]string, len(jobs))
	var wg sync.WaitGroup
	for i := range jobs {
		wg.Add(1)
		go func(i int) {
			defer wg.Done()
			for r := 0; r < c.Rounds && errs[i] == ""; r++ {
				for k, j := range jobs[i] {
					var w yieldWriter
					if _, err := j.m.EncodeTo(&w); err != nil {
						errs[i] = fmt.Sprintf("goroutine %d packet %d: encode error %v", i, k, err)
						break
					}
					if got := w.b.Bytes(); !bytes.Equal(got, j.want) {
						d := 0
						for d < len(got) && d < len(j.want) && got[d] == j.want[d] {
							d++
						}
						errs[i] = fmt.Sprintf("goroutine %d (of %d encoding concurrently), packet %d (type %d): encoded bytes differ from the reference encoding at offset %d (lengths %d/%d)", i, len(jobs), k, j.m.Type(), d, len(got), len(j.want))
						break
					}
				}
			}
		}(i)
	}
	wg.Wait()
	for _, e := range errs {
		if e != "" {
			return vkit.Failf("%s", e)
		}
	}
	// the same goroutines, now all encoding into ONE writer whose Write is atomic (a socket): the broker's connections are
	// written to by several goroutines without a lock of their own, so what the independent decoder reads from the shared
	// stream must be whole packets - exactly the packets that were encoded, each once
	var sw sharedWriter
	wantCount := map[string]int{}
	for i := range jobs {
		for _, j := range jobs[i] {
			wantCount[string(j.want)]++
		}
	}
	var wg2 sync.WaitGroup
	for i := range jobs {
		wg2.Add(1)
		go func(i int) {
			defer wg2.Done()
			for _, j := range jobs[i] {
				j.m.EncodeTo(&sw)
				runtime.Gosched()
			}
		}(i)
	}
	wg2.Wait()
	rd := bytes.NewReader(sw.b.Bytes())
	for rd.Len() > 0 {
		before := rd.Len()
		cp, err := packets.ReadPacket(rd)
		if err != nil {
			return vkit.Failf("%d goroutines encoding into one connection: the independent decoder cannot read the stream after %d of %d bytes: %v (a packet was not handed to the connection in one piece)", len(jobs), sw.b.Len()-before, sw.b.Len(), err)
		}
		var one bytes.Buffer
		cp.Write(&one)
		raw := sw.b.Bytes()[sw.b.Len()-before : sw.b.Len()-rd.Len()]
		if wantCount[string(raw)] == 0 {
			return vkit.Failf("%d goroutines encoding into one connection: the stream contains a packet (%d bytes, type %T) that none of them encoded - packets were interleaved", len(jobs), len(raw), cp)
		}
		wantCount[string(raw)]--
	}
	for _, n := range wantCount {
		if n != 0 {
			return vkit.Failf("%d goroutines encoding into one connection: %d encoded packets are missing from the stream", len(jobs), n)
		}
	}
	return vkit.OK(len(distinct) >= 2, fmt.Sprintf("goroutines-%d", len(jobs)))
}

// sharedWriter: one byte stream written by several goroutines; each Write call is atomic, as a socket write is.
type sharedWriter struct {
	mu sync.Mutex
	b  bytes.Buffer
}

func (w *sharedWriter) Write(p []byte) (int, error) {
	w.mu.Lock()
	w.b.Write(p)
	w.mu.Unlock()
	runtime.Gosched()
	return len(p), nil
}

func TestConcurrentEncode(t *testing.T) { vkit.Check(t, genConc, runConc) }
