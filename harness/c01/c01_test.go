//go:build verif

// C01 — Published messages reach exactly the matching subscribers.
// Model-based stateful exploration of message.Trie in both matching modes against a reference set of
// (filter, subscriber) pairs and the reference matcher of vkit (written from the statement).
package c01

import (
	"fmt"
	"sort"
	"strings"
	"testing"

	"github.com/emitter-io/emitter/internal/message"
	"github.com/emitter-io/emitter/internal/security"
	"github.com/emitter-io/emitter/internal/verif/vkit"
	"pgregory.net/rapid"
)

func TestMain(m *testing.M) { vkit.Main(m) }

type sub struct{ id string }

func (s *sub) ID() string                   { return s.id }
func (s *sub) Type() message.SubscriberType { return message.SubscriberDirect }
func (s *sub) Send(*message.Message) error  { return nil }

// Op is one step of a history. K: 0 subscribe, 1 unsubscribe, 2 lookup, 3 remove every live pair (order from Pick)
// and go on: the index is emptied and re-populated within one history.
type Op struct {
	K        int
	Contract int    // index into contracts
	Filter   string // subscribe / unsubscribe of a fresh pair
	Sub      int    // subscriber index
	Pick     int    // unsubscribe: >=0 picks the (Pick mod n)-th live pair; -1 uses Contract/Filter/Sub
	Channel  string // lookup
}

// Case is a whole history plus the order in which everything left is removed at the end.
type Case struct {
	MQTT  bool
	Ops   []Op
	Drain []int
}

var contracts = []uint32{7, 9}

const nSubs = 5

type pair struct {
	contract int
	filter   string
	sub      int
}

func (p pair) String() string { return fmt.Sprintf("%d|%s|s%d", p.contract, p.filter, p.sub) }

func ssidOf(contract uint32, ch string) message.Ssid {
	c := security.ParseChannel([]byte("k/" + ch))
	if c.ChannelType == security.ChannelInvalid {
		panic("harness generated an invalid channel " + ch)
	}
	return message.NewSsid(contract, c.Query)
}

func genFilter(t *rapid.T, mqtt bool) string {
	n := rapid.IntRange(1, 4).Draw(t, "depth")
	parts := make([]string, n)
	for i := range parts {
		parts[i] = rapid.SampledFrom([]string{"a", "b", "c", "a", "b", "+", "a", "b", "c", "a", "b", "+", "presence", "emitter"}).Draw(t, "lv") // presence / emitter: ordinary levels named like reserved words
	}
	if mqtt && rapid.IntRange(0, 3).Draw(t, "hash") == 0 {
		parts = append(parts, "#")
	}
	f := strings.Join(parts, "/") + "/"
	if rapid.IntRange(0, 3).Draw(t, "share") == 0 {
		f = "$share/" + rapid.SampledFrom([]string{"g1", "g2"}).Draw(t, "grp") + "/" + f
	}
	return f
}

func genChannel(t *rapid.T) string {
	n := rapid.IntRange(1, 5).Draw(t, "cdepth")
	parts := make([]string, n)
	for i := range parts {
		parts[i] = rapid.SampledFrom([]string{"a", "b", "c", "a", "b", "c", "a", "b", "c", "presence", "emitter"}).Draw(t, "clv")
	}
	return strings.Join(parts, "/") + "/"
}

// genPool draws the small set of filters one history mostly works with: a base filter, its proper prefixes and
// extensions (nested nodes of one branch), a permutation of its levels, and a few unrelated ones. Re-subscribing a
// filter that was removed earlier, and removing a whole branch leaf-first or root-first, become frequent this way.
func genPool(t *rapid.T, mqtt bool) []string {
	base := genFilter(t, mqtt)
	pool := []string{base}
	lv := vkit.Levels(base)
	start := 0
	if lv[0] == "$share" {
		start = 2
	}
	body := lv[start:]
	pre := strings.Join(lv[:start], "/")
	if pre != "" {
		pre += "/"
	}
	for i := 1; i < len(body); i++ { // proper prefixes
		if body[i-1] != "#" {
			pool = append(pool, pre+strings.Join(body[:i], "/")+"/")
		}
	}
	if body[len(body)-1] != "#" {
		pool = append(pool, pre+strings.Join(append(append([]string{}, body...), rapid.SampledFrom([]string{"a", "b", "+"}).Draw(t, "ext")), "/")+"/")
		rev := append([]string{}, body...)
		for i, j := 0, len(rev)-1; i < j; i, j = i+1, j-1 {
			rev[i], rev[j] = rev[j], rev[i]
		}
		pool = append(pool, pre+strings.Join(rev, "/")+"/")
	}
	if start == 2 { // the same filter without the share prefix
		pool = append(pool, strings.Join(body, "/")+"/")
	}
	for i, n := 0, rapid.IntRange(0, 3).Draw(t, "extra"); i < n; i++ {
		pool = append(pool, genFilter(t, mqtt))
	}
	return pool
}

func genCase(mqtt bool) func(t *rapid.T) Case {
	return func(t *rapid.T) Case {
		c := Case{MQTT: mqtt}
		n := rapid.IntRange(1, 60).Draw(t, "nops")
		pool := genPool(t, mqtt)
		fresh := rapid.SampledFrom([]int{0, 1, 1, 3, 10}).Draw(t, "fresh") // out of 10: how often a filter outside the pool is used
		filter := func() string {
			if rapid.IntRange(0, 9).Draw(t, "usefresh") < fresh {
				return genFilter(t, mqtt)
			}
			return rapid.SampledFrom(pool).Draw(t, "pf")
		}
		// per-history weights: subscribe / unsubscribe / lookup / remove-everything
		prof := rapid.SampledFrom([][4]int{{4, 3, 3, 0}, {4, 3, 3, 1}, {2, 5, 3, 0}, {5, 2, 3, 1}, {3, 3, 1, 1}}).Draw(t, "profile")
		tot := prof[0] + prof[1] + prof[2] + prof[3]
		// lookup channels are mostly derived from a pool filter (wildcards instantiated, levels appended or cut)
		channel := func() string {
			if rapid.IntRange(0, 9).Draw(t, "anychan") < 3 {
				return genChannel(t)
			}
			lv := vkit.Levels(rapid.SampledFrom(pool).Draw(t, "cf"))
			if lv[0] == "$share" {
				lv = lv[2:]
			}
			var out []string
			for _, l := range lv {
				switch l {
				case "+":
					out = append(out, rapid.SampledFrom([]string{"a", "b", "c"}).Draw(t, "inst"))
				case "#":
					for j, m := 0, rapid.IntRange(0, 2).Draw(t, "tail"); j < m; j++ {
						out = append(out, rapid.SampledFrom([]string{"a", "b", "c"}).Draw(t, "inst"))
					}
				default:
					out = append(out, l)
				}
			}
			switch rapid.IntRange(0, 5).Draw(t, "reshape") {
			case 0:
				out = append(out, rapid.SampledFrom([]string{"a", "b", "c"}).Draw(t, "more"))
			case 1:
				if len(out) > 1 {
					out = out[:len(out)-1]
				}
			}
			if len(out) == 0 {
				out = []string{"a"}
			}
			return strings.Join(out, "/") + "/"
		}
		for i := 0; i < n; i++ {
			var op Op
			switch k := rapid.IntRange(0, tot*3-1).Draw(t, "kind"); {
			case k < prof[0]*3:
				op = Op{K: 0, Contract: rapid.IntRange(0, 1).Draw(t, "c"), Filter: filter(), Sub: rapid.IntRange(0, nSubs-1).Draw(t, "s")}
			case k < (prof[0]+prof[1])*3:
				op = Op{K: 1, Pick: -1}
				if rapid.IntRange(0, 4).Draw(t, "existing") > 0 {
					op.Pick = rapid.IntRange(0, 1000).Draw(t, "pick")
				} else {
					op.Contract, op.Filter, op.Sub = rapid.IntRange(0, 1).Draw(t, "c"), filter(), rapid.IntRange(0, nSubs-1).Draw(t, "s")
				}
			case k < (prof[0]+prof[1]+prof[2])*3:
				op = Op{K: 2, Contract: rapid.IntRange(0, 1).Draw(t, "c"), Channel: channel()}
			case k == (prof[0]+prof[1]+prof[2])*3: // a third of the weight unit: rare
				op = Op{K: 3, Pick: rapid.IntRange(0, 1000).Draw(t, "order")}
			default:
				op = Op{K: 2, Contract: rapid.IntRange(0, 1).Draw(t, "c"), Channel: channel()}
			}
			c.Ops = append(c.Ops, op)
		}
		c.Drain = rapid.SliceOfN(rapid.IntRange(0, 1000), 0, 12).Draw(t, "drain")
		return c
	}
}

func sortedPairs(m map[pair]bool) []pair {
	keys := make([]pair, 0, len(m))
	for k := range m {
		keys = append(keys, k)
	}
	sort.Slice(keys, func(i, j int) bool { return keys[i].String() < keys[j].String() })
	return keys
}

// expected computes, from the model only, the direct recipients and the matching members per share group.
func expected(mqtt bool, model map[pair]bool, contract int, ch string) (direct map[int]bool, groups map[string]map[int]bool) {
	direct, groups = map[int]bool{}, map[string]map[int]bool{}
	cl := vkit.Levels(ch)
	for p := range model {
		if p.contract != contract {
			continue
		}
		fl := vkit.Levels(p.filter)
		if vkit.Match(mqtt, fl, cl) {
			direct[p.sub] = true
		}
		if fl[0] == "$share" && len(fl) >= 3 && vkit.Match(mqtt, fl[2:], cl) {
			if groups[fl[1]] == nil {
				groups[fl[1]] = map[int]bool{}
			}
			groups[fl[1]][p.sub] = true
		}
	}
	return
}

// explains tells whether got = direct ∪ {one member of every group}.
func explains(got, direct map[int]bool, groups map[string]map[int]bool) bool {
	names := make([]string, 0, len(groups))
	for g := range groups {
		names = append(names, g)
	}
	sort.Strings(names)
	var rec func(i int, chosen map[int]bool) bool
	rec = func(i int, chosen map[int]bool) bool {
		if i == len(names) {
			for s := range got {
				if !direct[s] && !chosen[s] {
					return false
				}
			}
			return true
		}
		for m := range groups[names[i]] {
			if !got[m] {
				continue
			}
			was := chosen[m]
			chosen[m] = true
			ok := rec(i+1, chosen)
			if !was {
				delete(chosen, m)
			}
			if ok {
				return true
			}
		}
		return false
	}
	for s := range direct {
		if !got[s] {
			return false
		}
	}
	return rec(0, map[int]bool{})
}

func run(c Case) vkit.Result {
	var tr *message.Trie
	if c.MQTT {
		tr = message.NewTrieMQTT()
	} else {
		tr = message.NewTrie()
	}
	subs := make([]*sub, nSubs)
	idx := map[string]int{}
	for i := range subs {
		subs[i] = &sub{fmt.Sprintf("s%d", i)}
		idx[subs[i].id] = i
	}
	model := map[pair]bool{}
	labels := map[string]bool{}
	unsubSeen, nontrivial := false, false
	structure := func(step int) string {
		if tr.Count() != len(model) {
			return fmt.Sprintf("step %d: Count()=%d, model has %d pairs", step, tr.Count(), len(model))
		}
		_, entries, empty := tr.VerifDump()
		if len(entries) != len(model) {
			return fmt.Sprintf("step %d: trie stores %d pairs, model %d", step, len(entries), len(model))
		}
		for _, e := range entries {
			found := false
			for p := range model {
				if subs[p.sub].id == e.ID && fmt.Sprint(ssidOf(contracts[p.contract], p.filter)) == fmt.Sprint(e.Ssid) {
					found = true
					break
				}
			}
			if !found {
				return fmt.Sprintf("step %d: trie stores pair (%v,%s) that the model does not have", step, e.Ssid, e.ID)
			}
		}
		if empty != 0 {
			return fmt.Sprintf("step %d: %d reachable nodes with neither subscribers nor children", step, empty)
		}
		return ""
	}
	for i, op := range c.Ops {
		switch op.K {
		case 0:
			p := pair{op.Contract, op.Filter, op.Sub}
			if model[p] {
				labels["duplicate-subscribe"] = true
			}
			tr.Subscribe(ssidOf(contracts[p.contract], p.filter), subs[p.sub])
			model[p] = true
		case 1:
			p := pair{op.Contract, op.Filter, op.Sub}
			if op.Pick >= 0 {
				live := sortedPairs(model)
				if len(live) == 0 {
					continue
				}
				p = live[op.Pick%len(live)]
			}
			if !model[p] {
				labels["unsubscribe-absent"] = true
			} else {
				unsubSeen = true
			}
			tr.Unsubscribe(ssidOf(contracts[p.contract], p.filter), subs[p.sub])
			delete(model, p)
		case 3:
			live := sortedPairs(model)
			for j := 0; len(live) > 0; j++ {
				k := (op.Pick + j*7) % len(live)
				p := live[k]
				live = append(live[:k], live[k+1:]...)
				tr.Unsubscribe(ssidOf(contracts[p.contract], p.filter), subs[p.sub])
				delete(model, p)
				unsubSeen = true
			}
			if nodes, _, _ := tr.VerifDump(); nodes != 1 {
				return vkit.Failf("step %d: every subscription removed, %d nodes left in the index", i, nodes)
			}
			labels["emptied-and-reused"] = true
		case 2:
			got := map[int]bool{}
			for _, s := range tr.Lookup(ssidOf(contracts[op.Contract], op.Channel), nil) {
				k, ok := idx[s.ID()]
				if !ok {
					return vkit.Failf("step %d: lookup returned unknown subscriber %q", i, s.ID())
				}
				if got[k] {
					return vkit.Failf("step %d: lookup(%s) returned subscriber s%d twice", i, op.Channel, k)
				}
				got[k] = true
			}
			direct, groups := expected(c.MQTT, model, op.Contract, op.Channel)
			if !explains(got, direct, groups) {
				return vkit.Failf("step %d: lookup(contract %d, %s) = %v; expected direct %v plus one member of each of %v; live pairs %v",
					i, op.Contract, op.Channel, keys(got), keys(direct), groups, sortedPairs(model))
			}
			if len(groups) > 0 {
				labels["share-group-matched"] = true
			}
			if len(direct) > 0 && unsubSeen && overlapping(model) {
				nontrivial = true
			}
			if len(direct) == 0 && len(groups) == 0 {
				labels["lookup-empty"] = true
			}
		}
		if msg := structure(i); msg != "" {
			return vkit.Result{Fail: msg}
		}
	}
	// every live 2-member share group: over repeated lookups both members occur
	// (uniformity is not claimed, only that the choice is not stuck); cheap, done on small cases only
	// remove everything that is left in the drawn order; the index must be empty again
	live := sortedPairs(model)
	for i := 0; len(live) > 0; i++ {
		k := 0
		if i < len(c.Drain) {
			k = c.Drain[i] % len(live)
		}
		p := live[k]
		live = append(live[:k], live[k+1:]...)
		tr.Unsubscribe(ssidOf(contracts[p.contract], p.filter), subs[p.sub])
		delete(model, p)
		if msg := structure(len(c.Ops) + i); msg != "" {
			return vkit.Result{Fail: "drain: " + msg}
		}
	}
	nodes, entries, _ := tr.VerifDump()
	if tr.Count() != 0 || nodes != 1 || len(entries) != 0 {
		return vkit.Failf("index not empty after removing every subscription: Count()=%d nodes=%d stored pairs=%d", tr.Count(), nodes, len(entries))
	}
	r := vkit.Result{NonTrivial: nontrivial}
	for l := range labels {
		r.Labels = append(r.Labels, l)
	}
	sort.Strings(r.Labels)
	if c.MQTT {
		r.Labels = append(r.Labels, "mode-mqtt")
	} else {
		r.Labels = append(r.Labels, "mode-emitter")
	}
	return r
}

func keys(m map[int]bool) []int {
	var out []int
	for k := range m {
		out = append(out, k)
	}
	sort.Ints(out)
	return out
}

// overlapping: at least two live filters of one contract such that some channel is matched by both
// (cheap sufficient test: one is a level-wise prefix/pattern of the other).
func overlapping(model map[pair]bool) bool {
	ps := sortedPairs(model)
	for i := range ps {
		for j := range ps {
			if i != j && ps[i].contract == ps[j].contract && ps[i].filter != ps[j].filter {
				a, b := vkit.Levels(ps[i].filter), vkit.Levels(ps[j].filter)
				if len(a) <= len(b) {
					ok := true
					for k := range a {
						if a[k] != b[k] && a[k] != "+" && b[k] != "+" && a[k] != "#" {
							ok = false
						}
					}
					if ok {
						return true
					}
				}
			}
		}
	}
	return false
}

func TestTrieEmitter(t *testing.T) { vkit.Check(t, genCase(false), run) }
func TestTrieMQTT(t *testing.T)    { vkit.Check(t, genCase(true), run) }
