//go:build verif

package c01

import (
	"fmt"
	"math/rand"
	"sync"
	"testing"

	"github.com/emitter-io/emitter/internal/message"
	"github.com/emitter-io/emitter/internal/verif/vkit"
)

// concCase describes one concurrent round; the scripts are derived from Seed (schedule is the Go scheduler's).
type concCase struct {
	MQTT    bool
	Seed    int64
	Workers int
	Steps   int
}

var concFilters = []string{"a/b/", "a/+/", "a/b/c/", "+/b/", "c/", "a/", "b/a/", "$share/g2/a/b/"}

// TestConcurrent: goroutines own disjoint subscribers and run subscribe/unsubscribe scripts while looking up.
// Oracle: a lookup never returns a subscriber that does not exist, always returns the stable subscriber,
// exactly one member of the stable share group; a worker always sees itself while it holds a matching
// filter and never when it holds none (its own operations are sequential); final state reclaimed to the root.
func TestConcurrent(t *testing.T) {
	rounds := vkit.N(20)
	rng := rand.New(rand.NewSource(vkit.Seed()))
	for round := 0; round < rounds; round++ {
		c := concCase{MQTT: round%2 == 1, Seed: rng.Int63(), Workers: 2 + rng.Intn(7), Steps: 100 + rng.Intn(300)}
		if msg := runConc(c); msg != "" {
			vkit.ReportFailure(t.Name(), c, msg, "")
			t.Fatalf("%s (case %+v)", msg, c)
		}
		vkit.Record(t.Name(), c, vkit.OK(true, "concurrent-round"))
	}
}

func runConc(c concCase) string {
	var tr *message.Trie
	if c.MQTT {
		tr = message.NewTrieMQTT()
	} else {
		tr = message.NewTrie()
	}
	stable, m1, m2 := &sub{"stable"}, &sub{"m1"}, &sub{"m2"}
	tr.Subscribe(ssidOf(7, "a/b/"), stable)
	tr.Subscribe(ssidOf(7, "$share/g1/a/b/"), m1)
	tr.Subscribe(ssidOf(7, "$share/g1/a/b/"), m2)
	valid := map[string]bool{"stable": true, "m1": true, "m2": true}
	for g := 0; g < c.Workers; g++ {
		valid[fmt.Sprintf("w%d", g)] = true
	}
	var wg sync.WaitGroup
	errs := make(chan string, 1000)
	for g := 0; g < c.Workers; g++ {
		wg.Add(1)
		go func(g int) {
			defer wg.Done()
			rng := rand.New(rand.NewSource(c.Seed + int64(g)*7919))
			me := &sub{fmt.Sprintf("w%d", g)}
			held := map[string]bool{}
			for i := 0; i < c.Steps; i++ {
				f := concFilters[rng.Intn(len(concFilters))]
				if rng.Intn(2) == 0 {
					tr.Subscribe(ssidOf(7, f), me)
					held[f] = true
				} else {
					tr.Unsubscribe(ssidOf(7, f), me)
					delete(held, f)
				}
				got := tr.Lookup(ssidOf(7, "a/b/"), nil)
				seen := map[string]int{}
				share := 0
				for _, s := range got {
					seen[s.ID()]++
					if !valid[s.ID()] {
						errs <- "lookup returned a subscriber that never subscribed: " + s.ID()
					}
					if s.ID() == "m1" || s.ID() == "m2" {
						share++
					}
				}
				for id, n := range seen {
					if n > 1 {
						errs <- fmt.Sprintf("subscriber %s returned %d times", id, n)
					}
				}
				if seen["stable"] != 1 {
					errs <- "stable subscriber missing from lookup"
				}
				if share != 1 {
					errs <- fmt.Sprintf("members of the stable share group in result: %d, want 1", share)
				}
				wantMe, viaShare := false, held["$share/g2/a/b/"] // g2 is shared by all workers: one member is chosen
				for f := range held {
					if vkit.MatchStr(c.MQTT, f, "a/b/") {
						wantMe = true
					}
				}
				if (wantMe && seen[me.id] != 1) || (!wantMe && !viaShare && seen[me.id] != 0) {
					errs <- fmt.Sprintf("worker %s holds %v but lookup(a/b/) has it %d times", me.id, keysOf(held), seen[me.id])
				}
			}
			for f := range held {
				tr.Unsubscribe(ssidOf(7, f), me)
			}
		}(g)
	}
	wg.Wait()
	close(errs)
	for e := range errs {
		return e
	}
	tr.Unsubscribe(ssidOf(7, "a/b/"), stable)
	tr.Unsubscribe(ssidOf(7, "$share/g1/a/b/"), m1)
	tr.Unsubscribe(ssidOf(7, "$share/g1/a/b/"), m2)
	nodes, entries, _ := tr.VerifDump()
	if tr.Count() != 0 || nodes != 1 || len(entries) != 0 {
		return fmt.Sprintf("not reclaimed after concurrent run: count %d nodes %d", tr.Count(), nodes)
	}
	return ""
}

func keysOf(m map[string]bool) []string {
	var out []string
	for k := range m {
		out = append(out, k)
	}
	return out
}

// TestShareBothMembers: over repeated lookups of a two-member group both members occur (the choice is not stuck).
func TestShareBothMembers(t *testing.T) {
	for _, mqtt := range []bool{false, true} {
		var tr *message.Trie
		if mqtt {
			tr = message.NewTrieMQTT()
		} else {
			tr = message.NewTrie()
		}
		m1, m2 := &sub{"m1"}, &sub{"m2"}
		tr.Subscribe(ssidOf(7, "$share/g1/a/b/"), m1)
		tr.Subscribe(ssidOf(7, "$share/g1/a/b/"), m2)
		seen := map[string]int{}
		for i := 0; i < 400; i++ {
			got := tr.Lookup(ssidOf(7, "a/b/"), nil)
			if len(got) != 1 {
				t.Fatalf("share lookup returned %d subscribers", len(got))
			}
			for _, s := range got {
				seen[s.ID()]++
			}
		}
		c := map[string]interface{}{"mqtt": mqtt, "seen": seen}
		if seen["m1"] == 0 || seen["m2"] == 0 {
			vkit.ReportFailure(t.Name(), c, fmt.Sprintf("only one member of a two-member share group is ever chosen: %v", seen), "")
			t.Fatalf("stuck share choice %v", seen)
		}
		vkit.Record(t.Name(), c, vkit.OK(true, "share-both-members"))
	}
}
