//go:build verif

package c01

import (
	"fmt"
	"sort"
	"testing"

	"github.com/emitter-io/emitter/internal/message"
	"github.com/emitter-io/emitter/internal/verif/vkit"
	"pgregory.net/rapid"
)

// The per-connection subscription counters (message.Counters, same file as the subscriber set) decide whether a
// connection's subscribe/unsubscribe reaches the trie at all. Model: a map from the full ssid to its count.
// Filters are drawn from families whose ssids share the XOR-fold hash code (permuted / repeated levels).

// COp: K 0 Increment, 1 IncrementOnce, 2 Decrement, 3 All.
type COp struct {
	K int `json:"k"`
	F int `json:"f"`
}

// CountersCase is a history on one Counters value.
type CountersCase struct {
	Ops []COp `json:"ops"`
}

var counterFilters = []string{"a/b/", "b/a/", "a/a/", "b/b/", "c/c/", "a/b/c/", "c/a/b/", "b/c/a/", "a/", "x/x/y/", "y/", "a/+/", "+/a/"}

func genCounters(t *rapid.T) CountersCase {
	var c CountersCase
	for i, n := 0, rapid.IntRange(1, 40).Draw(t, "n"); i < n; i++ {
		c.Ops = append(c.Ops, COp{K: rapid.SampledFrom([]int{0, 1, 1, 1, 2, 2, 2, 3}).Draw(t, "k"), F: rapid.IntRange(0, len(counterFilters)-1).Draw(t, "f")})
	}
	return c
}

func runCounters(c CountersCase) vkit.Result {
	cs := message.NewCounters()
	model := map[string]int{}
	collided := false
	for i, op := range c.Ops {
		f := counterFilters[op.F]
		ssid := ssidOf(7, f)
		switch op.K {
		case 0:
			model[f]++
			if got := cs.Increment(ssid, []byte(f)); got != (model[f] == 1) {
				return vkit.Failf("step %d: Increment(%s) = %v, model count is now %d", i, f, got, model[f])
			}
		case 1:
			want := model[f] == 0
			if want {
				model[f] = 1
			}
			if got := cs.IncrementOnce(ssid, []byte(f)); got != want {
				return vkit.Failf("step %d: IncrementOnce(%s) = %v, expected %v (model %v)", i, f, got, want, model)
			}
		case 2:
			want := false
			if n, ok := model[f]; ok {
				if n-1 <= 0 {
					delete(model, f)
					want = true
				} else {
					model[f] = n - 1
				}
			}
			if got := cs.Decrement(ssid); got != want {
				return vkit.Failf("step %d: Decrement(%s) = %v, expected %v (model after: %v)", i, f, got, want, model)
			}
		}
		// All() must list exactly the model
		got := map[string]int{}
		for _, ctr := range cs.All() {
			key := fmt.Sprint(ctr.Ssid)
			if _, dup := got[key]; dup {
				return vkit.Failf("step %d: All() lists ssid %v twice", i, ctr.Ssid)
			}
			got[key] = ctr.Counter
		}
		for f, n := range model {
			if got[fmt.Sprint(ssidOf(7, f))] != n {
				return vkit.Failf("step %d (%+v): counter of %s is %d in All(), model %d; model %v", i, op, f, got[fmt.Sprint(ssidOf(7, f))], n, model)
			}
		}
		if len(got) != len(model) {
			return vkit.Failf("step %d (%+v): All() lists %d counters, model has %d (%v)", i, op, len(got), len(model), model)
		}
		hashes := map[uint32]int{}
		for f := range model {
			hashes[ssidOf(7, f).GetHashCode()]++
		}
		for _, n := range hashes {
			if n > 1 {
				collided = true
			}
		}
	}
	var fs []string
	for f := range model {
		fs = append(fs, f)
	}
	sort.Strings(fs)
	return vkit.OK(collided, "counters")
}

func TestCounters(t *testing.T) { vkit.Check(t, genCounters, runCounters) }
