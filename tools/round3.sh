#!/bin/bash
# usage: round3.sh <Cxx>  — confirm, import and try the round-3 seeded changes of one property (sub-agent output in /tmp/seed3/<Cxx>/_seed)
P=$1
out=/tmp/seed3/confirm-$P.txt
: > $out
for m in m1 m2; do
  [ -f /tmp/seed3/$P/_seed/$m.diff ] && /verif/tools/confirm_seed.sh /tmp/seed3/$P $m >> $out 2>&1
done
cat $out
SEEDROOT=/tmp/seed3 SEEDTAG=r3 python3 /verif/tools/import_seeds.py $out
for m in m1 m2; do
  [ -d /verif/seeded/$P-r3$m ] && python3 /verif/tools/seedtest2.py $P-r3$m
done
