#!/bin/bash
# usage: mut.sh <check id> <repo-relative file> <sed expression> [extra check args]  — sensitivity experiment through the overlay (nothing in /repo is touched)
ID=$1; F=$2; E=$3; shift 3
mkdir -p /root/old/mut; M=/root/old/mut/$(echo $F | tr / _)
sed "$E" /repo/$F > $M
if cmp -s /repo/$F $M; then echo "MUTANT DID NOT APPLY"; exit 3; fi
cd /verif && ./check $ID --overlay $F=$M "$@" 2>&1 | grep -a "^---\|^$ID\|BUILD\|INCONCL" | cut -c1-330 | head -4
rm -rf /verif/replays/$ID
