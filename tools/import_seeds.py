#!/usr/bin/env python3
"""Imports sub-agent seeded mutations confirmed by tools/confirm_seed.sh into /verif/seeded/<id>/."""
import json, os, shutil, sys
conf = {}
for f in sys.argv[1:]:
    for l in open(f):
        l = l.strip()
        if l.startswith('{'):
            d = json.loads(l); conf[d['seed']] = d
for seed, d in sorted(conf.items()):
    if not d['ok']:
        print('NOT CONFIRMED', seed, d['why']); continue
    prop, m = seed.split('-')
    root = os.environ.get('SEEDROOT', '/tmp/seed')
    src = '%s/%s/_seed' % (root, prop)
    tag = os.environ.get('SEEDTAG', '')
    seed = '%s-%s%s' % (prop, tag, m)
    dst = '/verif/seeded/%s' % seed
    os.makedirs(dst, exist_ok=True)
    shutil.copy('%s/%s.diff' % (src, m), dst + '/patch.diff')
    shutil.copy('%s/%s_demo_test.go' % (src, m), dst + '/demo_test.go.txt')
    meta = json.load(open('%s/%s.json' % (src, m)))
    old = {}
    if os.path.exists(dst + '/meta.json'):
        old = json.load(open(dst + '/meta.json'))
    old.update(dict(id=seed, property=prop, summary=meta.get('summary'), needs=meta.get('needs'), demo_pkg=meta.get('demo_pkg'),
                    demo_run=meta.get('demo_run'), author_verified=meta.get('verified'), confirmed=d['why']))
    json.dump(old, open(dst + '/meta.json', 'w'), indent=1)
    print('imported', seed)
