#!/usr/bin/env python3
"""usage: covreport.py <ID> [profile]  — diagnostic: lists the statements of the property's anchor files that the given
coverage profile (default .work/cov/<ID>.out, written by `check <ID> --cover <file>`) never executed."""
import json, sys, os, re
pid = sys.argv[1].upper()
prof = sys.argv[2] if len(sys.argv) > 2 else '/verif/.work/cov/%s.out' % pid
files = None
for l in open('/verif/properties.jsonl'):
    p = json.loads(l)
    if p['id'] == pid:
        files = p['anchors']['files']
if len(sys.argv) > 3:
    files = sys.argv[3:]
pre = 'github.com/emitter-io/emitter/'
blocks = {}
for line in open(prof):
    if line.startswith('mode:'):
        continue
    m = re.match(r'(.*):(\d+)\.(\d+),(\d+)\.(\d+) (\d+) (\d+)$', line.strip())
    f = m.group(1)[len(pre):]
    if f in files:
        blocks.setdefault(f, []).append((int(m.group(2)), int(m.group(4)), int(m.group(6)), int(m.group(7))))
for f in files:
    bl = blocks.get(f, [])
    tot = sum(b[2] for b in bl)
    cov = sum(b[2] for b in bl if b[3] > 0)
    print('== %s: %d/%d statements' % (f, cov, tot))
    src = open('/repo/' + f).read().split('\n')
    for a, b, n, c in sorted(bl):
        if c == 0:
            print('   %d-%d: %s' % (a, b, ' | '.join(x.strip() for x in src[a - 1:min(b, a + 3)])[:160]))
