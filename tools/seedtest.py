#!/usr/bin/env python3
"""usage: seedtest.py <seed id> [check ids...]  — applies /verif/seeded/<id>/patch.diff to /repo, runs the quick tier of the
property's check (and any extra checks listed), reverts /repo, records the outcome in meta.json (detected_by)."""
import json, os, subprocess, sys
seed = sys.argv[1]
d = '/verif/seeded/' + seed
meta = json.load(open(d + '/meta.json'))
checks = sys.argv[2:] or [meta['property']]
assert subprocess.run(['git', '-C', '/repo', 'status', '--porcelain'], capture_output=True, text=True).stdout.strip() == '', '/repo not clean'
subprocess.check_call(['git', '-C', '/repo', 'apply', d + '/patch.diff'])
res = meta.setdefault('detected_by', {})
try:
    for c in checks:
        p = subprocess.run(['/verif/check', c, '--tier', 'quick'], capture_output=True, text=True, cwd='/verif')
        viol = [l for l in p.stdout.splitlines() if l.startswith('--- ')]
        res[c] = dict(exit=p.returncode, first=(viol[0][:400] if viol else ''))
        print(seed, c, 'exit', p.returncode, (viol[0][:300] if viol else p.stdout.strip().splitlines()[-1][:300]))
finally:
    subprocess.check_call(['git', '-C', '/repo', 'checkout', '--', '.'])
    subprocess.run('rm -rf /verif/replays/*; git -C /verif checkout -- evidence 2>/dev/null', shell=True)
json.dump(meta, open(d + '/meta.json', 'w'), indent=1)
