#!/usr/bin/env python3
"""usage: rebase_seeds.py <path in repo> <pre-fix copy of that file> — after a fix: commit in /repo changed a file, re-express
every kept seeded change that touches the file and no longer applies as a patch against /repo's current tree (three-way merge of
the seeded version, the pre-fix file and the current file). The change itself is untouched; meta.json notes the rebase."""
import json, os, re, shutil, subprocess, sys, tempfile, glob
path, pre = sys.argv[1], sys.argv[2]
for pf in sorted(glob.glob('/verif/seeded/*/patch.diff')):
    patch = open(pf).read()
    files = sorted(set(re.findall(r'^\+\+\+ b/(\S+)', patch, re.M)))
    if path not in files:
        continue
    seed = pf.split('/')[-2]
    tmp = tempfile.mkdtemp(prefix='rebase-', dir='/tmp')
    try:
        def stage(root, src_for_path):
            for f in files:
                os.makedirs(os.path.dirname(os.path.join(root, f)), exist_ok=True)
                shutil.copy(src_for_path if f == path else '/repo/' + f, os.path.join(root, f))
        cur = os.path.join(tmp, 'cur'); stage(cur, '/repo/' + path)
        subprocess.check_call(['git', 'init', '-q'], cwd=cur)
        if subprocess.run(['git', 'apply', '--check', pf], cwd=cur, capture_output=True).returncode == 0:
            print(seed, 'applies'); continue
        old = os.path.join(tmp, 'old'); stage(old, pre)
        subprocess.check_call(['git', 'init', '-q'], cwd=old)
        if subprocess.run(['git', 'apply', '--whitespace=nowarn', pf], cwd=old, capture_output=True).returncode != 0:
            print(seed, 'DOES NOT APPLY TO THE PRE-FIX FILE EITHER'); continue
        r = subprocess.run(['git', 'merge-file', '-p', os.path.join(old, path), pre, '/repo/' + path], capture_output=True, text=True)
        if r.returncode != 0:
            print(seed, 'MERGE CONFLICT'); continue
        new = os.path.join(tmp, 'new'); stage(new, '/repo/' + path)
        for f in files:
            if f != path:
                shutil.copy(os.path.join(old, f), os.path.join(new, f))
        open(os.path.join(new, path), 'w').write(r.stdout)
        a = os.path.join(tmp, 'a'); b = os.path.join(tmp, 'b'); stage(a, '/repo/' + path); shutil.copytree(new, b)
        d = subprocess.run(['git', 'diff', '--no-index', '--no-color', 'a', 'b'], cwd=tmp, capture_output=True, text=True).stdout
        d = re.sub(r'^diff --git a/a/(\S+) b/b/(\S+)', r'diff --git a/\1 b/\2', d, flags=re.M)
        d = re.sub(r'^--- a/a/', '--- a/', d, flags=re.M); d = re.sub(r'^\+\+\+ b/b/', '+++ b/', d, flags=re.M)
        shutil.copy(pf, pf.replace('patch.diff', 'patch.orig.diff')) if not os.path.exists(pf.replace('patch.diff', 'patch.orig.diff')) else None
        open(pf, 'w').write(d)
        chk = subprocess.run(['git', 'apply', '--check', pf], cwd=cur, capture_output=True, text=True)
        mp = pf.replace('patch.diff', 'meta.json'); meta = json.load(open(mp))
        meta['rebased'] = (meta.get('rebased', '') + ' patch re-expressed against /repo after fix commit touching ' + path + ' (three-way merge; original in patch.orig.diff)').strip()
        json.dump(meta, open(mp, 'w'), indent=1)
        print(seed, 'rebased', 'ok' if chk.returncode == 0 else 'BUT DOES NOT APPLY: ' + chk.stderr[:200])
    finally:
        shutil.rmtree(tmp, ignore_errors=True)
