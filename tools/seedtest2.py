#!/usr/bin/env python3
"""usage: seedtest2.py <seed id> [check ids...] [--tier quick]  — like seedtest.py, but never touches /repo: the patched
versions of the files named in /verif/seeded/<id>/patch.diff are produced in a scratch directory and handed to the check
through --overlay (the build then compiles /repo's tree with exactly those files replaced). Several seeds can be tried
in parallel this way. Records the outcome in meta.json (detected_by)."""
import json, os, re, shutil, subprocess, sys, tempfile
args = [a for a in sys.argv[1:] if not a.startswith('--')]
seed = args[0]
d = '/verif/seeded/' + seed
meta = json.load(open(d + '/meta.json'))
checks = args[1:] or [meta['property']]
patch = open(d + '/patch.diff').read()
files = sorted(set(re.findall(r'^\+\+\+ b/(\S+)', patch, re.M)))
tmp = tempfile.mkdtemp(prefix='seedov-' + seed + '-', dir='/tmp')
try:
    for f in files:
        os.makedirs(os.path.dirname(os.path.join(tmp, f)), exist_ok=True)
        if os.path.exists('/repo/' + f):
            shutil.copy('/repo/' + f, os.path.join(tmp, f))
    subprocess.check_call(['git', 'init', '-q'], cwd=tmp)
    subprocess.check_call(['git', 'apply', '--whitespace=nowarn', d + '/patch.diff'], cwd=tmp)
    ov = []
    for f in files:
        ov += ['--overlay', '%s=%s' % (f, os.path.join(tmp, f))]
    res = meta.setdefault('detected_by', {})
    for c in checks:
        wd = tempfile.mkdtemp(prefix='seedrun-', dir='/tmp')
        p = subprocess.run(['/verif/check', c, '--tier', 'quick', '--noevidence', '--replaydir', wd] + ov, capture_output=True, text=True, cwd='/verif')
        viol = [l for l in p.stdout.splitlines() if l.startswith('--- ')]
        res[c] = dict(exit=p.returncode, first=(viol[0][:400] if viol else ''))
        print(seed, c, 'exit', p.returncode, (viol[0][:300] if viol else (p.stdout.strip().splitlines() or ['?'])[-1][:300]), flush=True)
        shutil.rmtree(wd, ignore_errors=True)
    json.dump(meta, open(d + '/meta.json', 'w'), indent=1)
finally:
    shutil.rmtree(tmp, ignore_errors=True)
