#!/bin/bash
# usage: confirm_seed.sh <worktree> <mN>   — confirms a sub-agent's seeded mutation in its scratch worktree:
# patch applies, project builds, full suite shows only the baseline failures, demo fails with / passes without the change.
# prints one JSON line with the verdict.
WT=$1; M=$2
export GOFLAGS=-mod=mod GOPROXY=off
cd $WT || exit 2
git checkout -q -- . ; git clean -fdq -e _seed
J=_seed/$M.json; D=_seed/$M.diff; T=_seed/${M}_demo_test.go
PKG=$(python3 -c "import json;print(json.load(open('$J'))['demo_pkg'])")
res() { echo "{\"seed\":\"$(basename $WT)-$M\",\"ok\":$1,\"why\":\"$2\"}"; git checkout -q -- . ; git clean -fdq -e _seed; exit 0; }
git apply --check $D 2>/dev/null || res false "patch does not apply"
cp $T $PKG/zz_seed_demo_test.go
# without the change: demo passes
timeout 600 go test -vet=off -count=1 -run 'Seed' ./$PKG/ >/tmp/seedc.$$ 2>&1 || { res false "demo fails on the unchanged tree: $(tail -3 /tmp/seedc.$$ | tr '\n"' ' .')"; }
git apply $D
go build ./... >/tmp/seedc.$$ 2>&1 || res false "does not build"
timeout 600 go test -vet=off -count=1 -run 'Seed' ./$PKG/ >/tmp/seedc.$$ 2>&1 && res false "demo passes with the change"
rm $PKG/zz_seed_demo_test.go
FAILS=$(timeout 1500 go test -vet=off -count=1 ./... 2>&1 | grep -- '^--- FAIL' | awk '{print $3}' | sort | tr '\n' ' ')
for f in $FAILS; do case $f in TestNewClient|TestStatsd_BadSnapshot|TestStatsd_Configure|TestJoin|TestTimeout|TestRandom) ;; *) res false "existing test fails with the change: $f";; esac; done
rm -f /tmp/seedc.$$
res true "confirmed: applies, builds, suite baseline-only failures ($FAILS), demo fails with and passes without"
