#!/bin/bash
# usage: round.sh <round number> <Cxx>  — confirm, import and try the seeded changes a sub-agent left in /tmp/seed<round>/<Cxx>/_seed
R=$1; P=$2
out=/tmp/seed$R/confirm-$P.txt
: > $out
for m in m1 m2; do
  [ -f /tmp/seed$R/$P/_seed/$m.diff ] && /verif/tools/confirm_seed.sh /tmp/seed$R/$P $m >> $out 2>&1
done
cat $out
SEEDROOT=/tmp/seed$R SEEDTAG=r$R python3 /verif/tools/import_seeds.py $out
for m in m1 m2; do
  [ -d /verif/seeded/$P-r$R$m ] && python3 /verif/tools/seedtest2.py $P-r$R$m
done
