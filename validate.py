#!/opt/veriftools/pyvenv/bin/python3
import json, jsonschema, glob, sys
jsonschema.validate(json.load(open('/verif/MANIFEST.json')), json.load(open('/root/.vp/MANIFEST.schema.json')))
es = json.load(open('/root/.vp/EVIDENCE.schema.json'))
for f in sorted(glob.glob('/verif/evidence/*.json')):
    jsonschema.validate(json.load(open(f)), es)
print('manifest and', len(glob.glob('/verif/evidence/*.json')), 'evidence files valid')
