#!/bin/bash
# Builds every harness once (warms the Go build cache). Offline; nothing is written into /repo.
cd "$(dirname "$0")"
python3 - <<'PY'
import sys, os, importlib.util, importlib.machinery
sys.path.insert(0, os.getcwd())
loader = importlib.machinery.SourceFileLoader("check", os.path.join(os.getcwd(), "check"))
spec = importlib.util.spec_from_loader("check", loader)
chk = importlib.util.module_from_spec(spec)
loader.exec_module(chk)
import concurrent.futures
from checks_conf import CHECKS
bad = 0
def one(pid):
    r = chk.build(pid)
    return pid, r
with concurrent.futures.ThreadPoolExecutor(max_workers=4) as ex:
    for pid, r in ex.map(one, sorted(CHECKS)):
        if r is None:
            bad += 1
            print("setup: build of", pid, "failed")
        else:
            print("setup: built", pid, "in %.1fs" % r[1])
sys.exit(1 if bad else 0)
PY
