# Per-property leg tables for /verif/check. n = rapid cases (or VERIF_N for plain legs) in total for the leg,
# procs = parallel processes the total is split over, batch = max cases per process (process recycling).
CHECKS = {}
NOT_APPLICABLE = {}
for _i in range(1, 21):
    NOT_APPLICABLE["C%02d" % _i] = "check not built yet in this session (planned, see DESIGN.md §4)"

CHECKS["C01"] = dict(
    level="exploration",
    technique="model-based stateful property testing (rapid) of the subscription trie against a reference pair set + reference matcher; randomized concurrent stress leg",
    level_text="Generated subscribe/unsubscribe/lookup histories in both matching modes are checked step by step against an independent model "
               "(exact recipient set incl. one-member-per-share-group, Count, stored pairs, no empty reachable node, full reclamation to the root). "
               "Exploration: thousands (quick) to hundreds of thousands (thorough) of shrinkable histories; absence of violations is not proven. The generator works from a per-history pool of nested / permuted filters with drawn operation weights and 'remove everything and go on' steps, so that emptied branches are re-populated within one history; a death of the test process inside emitter code (e.g. a concurrent map access) is reported as a violation.",
    level_note="Trusted: the 30-line reference matcher written from the statement, security.ParseChannel+NewSsid for ssid construction, the VerifDump accessor. "
               "Concurrent leg samples Go-scheduler interleavings only.",
    rule="rapid-generated histories (<=60 ops) of subscribe/unsubscribe/lookup on message.Trie in emitter and mqtt mode, "
         "filters over {a,b,c,+}, depth 1-4, optional trailing # (mqtt) and $share/g1|g2/ prefix, 2 contracts, 5 subscribers; "
         "non-trivial = history with a lookup whose expected direct set is non-empty, after >=1 effective unsubscribe, while >=2 "
         "overlapping filters of one contract are live (counters leg: >=2 live ssids sharing the XOR hash code); distinct = distinct case value (hash of its canonical JSON). "
         "Concurrent rounds count as one case each.",
    assumptions=["subscriber ids colliding under 32-bit murmur and contract ids equal to wildcard hash constants are outside the sampled domain",
                 "concurrent leg: interleavings are whatever the Go scheduler yields (sampled, not enumerated)"],
    legs=[
        dict(name="trie-emitter", test="^TestTrieEmitter$", quick=dict(n=8000, procs=2, timeout=240), thorough=dict(n=1500000, procs=6, timeout=3000)),
        dict(name="trie-mqtt", test="^TestTrieMQTT$", quick=dict(n=8000, procs=2, timeout=240), thorough=dict(n=1500000, procs=6, timeout=3000)),
        dict(name="counters", test="^TestCounters$", quick=dict(n=15000, procs=1, timeout=240), thorough=dict(n=3000000, procs=4, timeout=3000)),
        dict(name="concurrent", test="^(TestConcurrent|TestShareBothMembers)$", kind="plain", quick=dict(n=20, procs=1, timeout=240), thorough=dict(n=800, procs=2, timeout=1500)),
    ],
)

CHECKS["C02"] = dict(
    level="exploration",
    technique="end-to-end stateful property testing (rapid): generated multi-client request histories against an in-process broker, "
              "paho-decoded client side, per-connection acknowledged-filter model + reference matcher as oracle",
    level_text="Histories of <=40 connect/subscribe/unsubscribe/publish/link/reconnect requests from 1-4 clients (valid and refused keys, malformed "
               "topics, me=0, QoS 0/1, link shortcuts with auto-subscribe) run through the real accept path; after every request every client's "
               "received packets are compared with the model (exact recipient set, one copy, topic without key, payload unchanged, error reply with "
               "request id and unchanged subscription count for refused requests, empty index after all clients closed). A second leg runs single-connection sessions over a scripted broker-side socket on which exactly one write fails (transient failure): the connection either ends or is still sent every other packet it is owed. Sessions also hold $share group filters (oracle: one member per group, never more share-only receivers than groups) and re-issue earlier link requests. A further CONNECT on a connection that already has a session is accepted and changes nothing the connection holds. A slow-subscriber leg stalls a subscriber's reads for 3.5-6.5 s while matching messages (up to 40 kB) are published: it must receive every one, whole, in order, once.",
    level_note="Trusted: paho packets codec on the client side, net.Pipe transport, protocol barriers (PUBACK/PINGRESP/close signal), reference matcher. "
               "Storage and cluster disabled/quiescent; emitter matcher mode only.",
    rule="rapid-generated histories; non-trivial = history in which a publish is delivered to a connection holding >=2 filters after >=1 effective "
         "unsubscribe/disconnect; distinct = distinct case value.",
    assumptions=["a barrier not answered within 30 s is reported as a hang (violation)"],
    legs=[dict(name="sessions", test="^TestSessions$", quick=dict(n=800, procs=4, timeout=300), thorough=dict(n=40000, procs=14, timeout=2400)),
          dict(name="write-failure", test="^TestTransientWriteFailure$", quick=dict(n=600, procs=2, timeout=300), thorough=dict(n=60000, procs=8, timeout=2400)),
          dict(name="slow-subscriber", test="^TestSlowSubscriber$", quick=dict(n=6, procs=3, batch=2, timeout=900), thorough=dict(n=48, procs=8, batch=6, timeout=3000))],
)

CHECKS["C16"] = dict(
    level="exploration",
    technique="differential property testing (rapid) of emitter's MQTT codec against paho.mqtt.golang/packets from a neutral packet description; "
              "native go fuzzing of the decoder against paho in the thorough tier",
    level_text="For generated packet values of all 14 types (flag combinations, QoS incl. will QoS, message ids, string/payload lengths aimed at the "
               "remaining-length boundaries 0/127/128/16383/16384/..64KiB) emitter's bytes are decoded by paho, paho's bytes by emitter, emitter's by "
               "emitter; all field maps must equal the description, both byte strings must be identical and the remaining length must match an independent encoder. After each packet its same-size variants (other flags, ids, contents) and the packet again are encoded: bytes must not depend on what was encoded before; the domain reaches the codec's size limit (bodies up to 65 536 bytes); the concurrent leg also lets all goroutines encode into one atomic-write stream that must decode into exactly the encoded packets.",
    level_note="Trusted: paho.mqtt.golang v1.5.0 packets as the independent MQTT 3.1.1 implementation (its known leniencies are filtered: only well-formed "
               "packets, topic filters >=1 char), the neutral description and field maps in the harness.",
    rule="rapid-generated packet descriptions; non-trivial = remaining length needs >=2 bytes or any non-default flag/QoS/return code; distinct = distinct description.",
    assumptions=["packets whose total size exceeds the 64 KiB encoder buffer are out of scope (counted as excluded)"],
    legs=[dict(name="differential", test="^TestCodecDifferential$", quick=dict(n=50000, procs=4, timeout=300), thorough=dict(n=5000000, procs=12, timeout=3000)),
          dict(name="concurrent-encode", test="^TestConcurrentEncode$", quick=dict(n=400, procs=2, timeout=300), thorough=dict(n=40000, procs=6, timeout=2400)),
          dict(name="fuzz-seeds", test="^FuzzDecode$", kind="plain", quick=dict(n=1, procs=1, timeout=120), thorough=dict(n=1, procs=1, timeout=120)),
          dict(name="fuzz-decode", kind="fuzz", fuzz="FuzzDecode", thorough=dict(fuzztime=240, workers=8))],
)

CHECKS["C20"] = dict(
    level="exploration",
    technique="round-trip and rejection property testing (rapid) of license String/Parse and the three key ciphers; hostile license strings parsed in a "
              "re-executed child process under an address-space ceiling (death = violation or listed finding)",
    level_text="Generated licenses of all three versions (edge-valued contract/signature/index) must parse back to the same accessors and an equivalent "
               "cipher; generated 24-byte keys must encrypt to 32 URL-safe characters, decrypt back, and distinct keys must give distinct strings (pairwise "
               "and in a 20k-100k sample); strings that are not 32 valid characters must be rejected with an error; license.Parse on generated hostile "
               "strings must return a license or an error - aborts are observed in a child worker. Licenses made by the repository's own generators (NewV1/2/3, license.New) are round-tripped and their generated master key must be a valid master key of the license.",
    level_note="Trusted: deterministic license construction from exported struct fields, the child-worker protocol (unacknowledged input = culprit), "
               "RLIMIT_AS 3 GB for the child. 2^-32-probability collisions are not reachable by sampling.",
    rule="rapid-generated license field tuples / keys / strings; non-trivial = license with non-zero contract or signature, key with non-zero salt, "
         "rejected string of length exactly 32, parsed string of length >= 5; distinct = distinct case value.",
    assumptions=["the v2/v3 character-level mutations run only in the child worker; in-process v2/v3 strings are truncations / suffix changes"],
    legs=[
        dict(name="license", test="^TestLicenseRoundtrip$", quick=dict(n=3000, procs=1, timeout=300), thorough=dict(n=200000, procs=2, timeout=1800)),
        dict(name="generated", test="^TestGeneratedLicenses$", kind="plain", quick=dict(n=300, procs=1, timeout=300), thorough=dict(n=4000, procs=4, timeout=1800)),
        dict(name="key", test="^TestKeyRoundtrip$", quick=dict(n=20000, procs=2, timeout=300), thorough=dict(n=5000000, procs=6, timeout=3000)),
        dict(name="collisions", test="^TestNoCollisions$", kind="plain", quick=dict(n=20000, procs=1, timeout=300), thorough=dict(n=300000, procs=2, timeout=1800)),
        dict(name="concurrent", test="^TestConcurrentCipher$", kind="plain", quick=dict(n=20000, procs=1, timeout=300), thorough=dict(n=400000, procs=1, timeout=1800)),
        dict(name="reject", test="^TestDecryptRejects$", quick=dict(n=20000, procs=2, timeout=300), thorough=dict(n=5000000, procs=6, timeout=3000)),
        dict(name="parse", test="^TestParseArbitrary$", quick=dict(n=40000, procs=2, timeout=300), thorough=dict(n=5000000, procs=6, timeout=3000)),
        dict(name="parse-hostile", test="^(TestProbeParseOOM|TestParseHostile)$", quick=dict(n=3000, procs=2, timeout=300), thorough=dict(n=200000, procs=4, timeout=1800)),
    ],
)

CHECKS["C04"] = dict(
    level="exploration",
    technique="model-based stateful property testing (rapid) of event.State / crdt.Volatile / crdt.Durable replicas against the LWW lattice (pointwise max of add/remove times)",
    level_text="2-4 replicas (volatile and durable mixed) apply generated local add/remove operations at drawn clocks (ties, backwards clocks) and receive "
               "generated payloads - single operations, full snapshots, deltas returned by earlier merges - with and without Encode/DecodeState hops, with "
               "duplication and arbitrary order; after every step every replica's Get/Has/Range/Count/Subscriptions must equal its model, and after a final "
               "all-to-all snapshot exchange in a drawn order all replicas must be identical. A concurrency leg applies local operations, gossip merges and reads to one replica at the same time - the harness lets chosen merges run exactly while a local operation sits between its read and its write (clock hook) - and requires the join of all updates at the end.",
    level_note="Trusted: the lattice model (20 lines), crdt.Now clock injection, the VerifSubset accessor. Payload value bytes are not part of the oracle "
               "(the statement speaks of entries and times). Durable snapshots are exact only below the 50 000-entry reservoir.",
    rule="rapid-generated histories (<=50 steps, 7 events of 3 types, clocks 1..8); non-trivial = >=3 replicas touched, >=1 tie or backwards clock and >=1 "
         "re-deliverable (encoded) payload shipped; distinct = distinct case value.",
    assumptions=["tombstone expiry (6 h TTL in the durable store) is outside the explored time span"],
    legs=[dict(name="convergence", test="^TestConvergence$", quick=dict(n=4000, procs=4, timeout=300), thorough=dict(n=250000, procs=14, timeout=2400)),
          dict(name="concurrent-replica", test="^TestReplicaUnderConcurrency$", quick=dict(n=1500, procs=4, timeout=300), thorough=dict(n=100000, procs=12, timeout=2400))],
)

CHECKS["C13"] = dict(
    level="exploration",
    technique="model-based property testing (rapid): delta returned by State.Merge compared with an independently computed lattice delta; queueing histories "
              "on a transcription of mesh's gossipSender checked for 'everything queued is sent'",
    level_text="(a) On the replicated-state machine of C04 every Merge's returned delta must contain exactly the entries and only the add/remove times that "
               "changed the receiver, be nil exactly when nothing changed, and leave the receiver at the pointwise maximum (volatile and durable receivers, "
               "ops/snapshots/relayed deltas, with and without encode hops). (b) 1-6 payloads (ops, deltas, live full states) are queued on 1-3 links of the "
               "transcribed sender, one object possibly on several links; the decoded join of what is put on the wire must dominate the join of what was queued. "
               "Non-coalescing schedules are asserted strictly; failures with >=1 pending.Merge(new) call match the listed finding. (c) merges of the same payloads arriving over several links at once, racing local operations: every (entry, time) is handed on by at most one merge, and by exactly one if only gossip carried it. Payloads may carry a subset of an unknown type (never news); one plain leg merges a 150 000-subscription payload (one transport frame, > 10 MiB decoded) completely. A damaged-payload leg hands the broker's gossip entry points (OnGossip / OnGossipBroadcast) payloads whose first subsets decode and carry news while a later one does not (short value, empty value, entry cut short): whatever changed the broker's state must be in a delta returned without error (rejecting the whole payload is fine).",
    level_note="Trusted: the lattice model, the 40-line transcription of mesh gossipSender.Send/Broadcast/pick (vkit/gsender.go). For (b) the implementation "
               "is known to violate the property whenever payloads coalesce (listed finding), so (b) separates 'fails as listed' from 'fails otherwise' only.",
    rule="(a) non-trivial = history containing a merge whose payload entry has one changed and one unchanged time field; (b) non-trivial = >=2 payloads queued. "
         "distinct = distinct case value.",
    legs=[dict(name="delta", test="^TestDeltaExact$", quick=dict(n=4000, procs=4, timeout=300), thorough=dict(n=250000, procs=12, timeout=2400)),
          dict(name="damaged-payload", test="^TestDamagedPayload$", quick=dict(n=60, procs=2, batch=30, timeout=600), thorough=dict(n=1500, procs=4, batch=50, timeout=1800)),
          dict(name="large-payload", test="^TestLargePayload$", kind="plain", quick=dict(n=1, procs=1, timeout=600), thorough=dict(n=1, procs=1, timeout=600)),
          dict(name="concurrent-merges", test="^TestDeltaUnderConcurrency$", quick=dict(n=3000, procs=4, timeout=300), thorough=dict(n=200000, procs=12, timeout=2400)),
          dict(name="sender", test="^(TestProbeCoalescedLost|TestSenderQueue)$", quick=dict(n=8000, procs=2, timeout=300), thorough=dict(n=300000, procs=4, timeout=2400))],
)

CHECKS["C17"] = dict(
    level="exploration",
    technique="model-based property testing (rapid) of the sniffing listener connection, its write queue and the WebSocket adapter over fake sockets / frame "
              "sources and a real gorilla client; oracle: bytes out = bytes in, in order, once",
    level_text="(a) generated byte streams, socket chunkings (incl. data returned together with EOF/another error), matcher sets and consumer buffer sizes: the "
               "consumer must read exactly the stream and the socket's final error; (b) generated Write/Flush/wait sequences at flush rates 1..1000: the socket "
               "must always hold a prefix of, and finally exactly, the bytes written (direct, queued and timer-flushed paths observed); (c) generated WebSocket "
               "message sequences (binary/text/empty, control frames interleaved, fragment sizes 1..4096, EOF with or after the data) through the adapter, one "
               "binary message per write; (d) the same through a real gorilla client with small write buffers (real continuation frames) against TryUpgrade. (e) the real multiplexing listener on loopback TCP in the broker's configuration: whatever the opening bytes and TCP chunking, the sub-listener reads the client's bytes and the client the server's; clients may stall past a short sniffing deadline after fewer than 8 bytes; WebSocket messages up to 140 000 bytes. The write leg also scripts one socket write that accepts part of its data and fails (transient): nothing may arrive twice or out of order, nothing may be lost beyond what the socket refused. A write-during-timer-flush leg holds the periodic flush inside the socket write while concurrent rate-limited writes queue up, releases it and only waits: every write must arrive whole and once with no further write coming to the rescue.",
    level_note="Trusted: the fake socket / frame source (40 lines each), gorilla/websocket as the client in (d). More than 5 consecutive empty WebSocket messages are "
               "not generated (bufio gives up after 100 empty reads: a documented reader limit).",
    rule="rapid-generated cases; non-trivial = (a) >=1 matcher peeked and the consumer's first read is either small (<8) or spans the replay boundary, (b) >=1 queued "
         "write, (c) stream longer than the first read or control frames present, (d) >=1 message larger than the client's write buffer; distinct = distinct case value.",
    legs=[dict(name="sniffer", test="^TestSniffer$", quick=dict(n=6000, procs=2, timeout=300), thorough=dict(n=3000000, procs=8, timeout=3000)),
          dict(name="writes", test="^TestWrites$", quick=dict(n=1500, procs=4, timeout=400), thorough=dict(n=60000, procs=14, timeout=2400)),
          dict(name="write-during-timer-flush", test="^TestWriteDuringTimerFlush$", quick=dict(n=6, procs=3, batch=2, timeout=900), thorough=dict(n=96, procs=8, batch=12, timeout=3000)),
          dict(name="concurrent-writes", test="^TestConcurrentWrites$", quick=dict(n=300, procs=2, timeout=300), thorough=dict(n=30000, procs=6, timeout=2400)),
          dict(name="real-listener", test="^TestRealListener$", quick=dict(n=600, procs=2, timeout=400), thorough=dict(n=12000, procs=8, timeout=2400)),
          dict(name="websocket", test="^TestWebsocket$", quick=dict(n=4000, procs=2, timeout=300), thorough=dict(n=2000000, procs=8, timeout=3000)),
          dict(name="websocket-real", test="^TestRealWebsocket$", quick=dict(n=300, procs=2, timeout=300), thorough=dict(n=20000, procs=6, timeout=2400))],
)

CHECKS["C06"] = dict(
    level="exploration",
    technique="model-based property testing (rapid) of the in-memory and disk message stores: generated stores and queries against a sorted reference list "
              "(contract, level-wise prefix filter, window, expiry, limit, 64 KiB reply cap, continuation pages to exhaustion)",
    level_text="Stores of 0-40 messages (two contracts whose key prefixes collide by construction plus a third, channels of depth 1-4, a 6-second band so many "
               "messages share a second, expired and live TTLs, payloads up to 60 KiB against the 64 KiB cap, retained TTL) and 1-6 queries each (literal first "
               "level, '+' elsewhere, windows cutting the band, limits 0..2^62, continuation from the oldest id to exhaustion or from an arbitrary returned id): "
               "the returned multiset, its order, the fields of every message, page disjointness and the union of pages are compared with the reference. Further legs ask through the other observation point, emitter/history/ requests to a broker with an in-memory and a disk store (options last/from/until, paging with startFromID, refusals), feed undecodable replies of other cluster members into the two-node survey, and continue with ids obtained from a wider query than the window in force. Message bands may lie 10 000 s or 35 days in the past with ttls that keep them alive (older than the retention period). On the disk provider a quarter of the cases close and reopen the store between the stores and the queries (history asked for in another life of the broker).",
    level_note="Trusted: the 40-line reference (key order = time desc then creation order desc, cumulative payload+id+channel <= 65536), message.New/ID.SetTime for "
               "construction, wall clock only with margins (messages are either expired by >=500 s or live for >=1 h). The main legs use a nil surveyor; the two-node leg plays the cluster surveyor itself (request handed to the peer store's OnSurvey). "
               "Negative limits are out of the property's domain (C09 covers them).",
    rule="rapid-generated (store, queries) cases; non-trivial = some query has a non-empty candidate set that is a strict subset of the store and (a colliding foreign "
         "contract message, an expired message, or a continuation) is involved; distinct = distinct case value.",
    legs=[dict(name="inmemory", test="^TestQueryInMemory$", quick=dict(n=8000, procs=4, timeout=300), thorough=dict(n=600000, procs=10, timeout=3000)),
          dict(name="two-nodes", test="^TestQueryTwoNodes$", quick=dict(n=2000, procs=2, timeout=300), thorough=dict(n=200000, procs=4, timeout=2400)),
          dict(name="big-store", test="^TestBigStore$", kind="plain", quick=dict(n=1, procs=1, timeout=300), thorough=dict(n=1, procs=1, timeout=300)),
          dict(name="disk", test="^TestQueryDisk$", quick=dict(n=2000, procs=2, timeout=300), thorough=dict(n=30000, procs=6, timeout=2400)),
          dict(name="history-request", test="^(TestProbeReplyDropped|TestHistoryRequestInMemory)$", quick=dict(n=1200, procs=2, timeout=300), thorough=dict(n=100000, procs=8, timeout=2400)),
          dict(name="history-request-disk", test="^TestHistoryRequestDisk$", quick=dict(n=400, procs=2, timeout=300), thorough=dict(n=20000, procs=6, timeout=2400))],
)

CHECKS["C03"] = dict(
    level="exploration",
    technique="complete enumeration of the target x request grammar at Key.ValidateChannel + property testing (rapid) of Service.Authorize with every conjunct drawn "
              "independently against a reference predicate; permission-per-operation enumeration through real connections",
    level_text="(1) every (target, request) pair of the grammar (targets depth<=3 over {a,b,+} with/without #/, requests depth<=4 over {a,b,c,+} with/without #; "
               "thorough: targets depth<=4 over {a,b,c,+}) is compared with the reference 'covers' in both directions (no over-, no under-permission); "
               "(2) generated tuples (license version 1-3, own/second/unknown contract, signature, master id, permission mask, needed permission, expiry, ban "
               "state, undecryptable key strings, target, request) through Service.Authorize: allowed iff every conjunct holds, each conjunct is seen deciding; "
               "(3) for all 128 permission masks x 3 license versions the operations subscribe/publish/history/presence/key-extension through a connection "
               "need exactly read/write/load/presence/extend, and a second contract's key never reaches the first contract's subscribers. Each decision is asked twice with disturbances in between (the key is extended for a private link, a powerful unrelated key is authorized): the answer must not change; contracts served by an HTTP provider whose first lookup fails must be accepted from the next lookup on; a concurrent leg has 8 goroutines authorizing their own keys at once against the same reference. Malformed spellings include white-space padded keys; a refresh leg revokes contracts at an HTTP provider (one contract disappearing or failing) and requires the revocations to take effect after refresh rounds.",
    level_note="Trusted: the 25-line reference 'covers' (requests ending in '#' against exact targets are unspecified and excluded, counted), keys built field by field "
               "and encrypted with the license cipher, a delegating contract provider over emitter's own SingleContractProviders. The listed finding (targets "
               "whose last level is '+') is excluded from the under-permission direction only; over-permission is asserted everywhere.",
    rule="matrix cells + generated tuples + masks; non-trivial = matrix cell that is allowed or refused by exactly one level / one depth step; tuple where exactly "
         "one conjunct fails or all hold; distinct = distinct case value.",
    legs=[dict(name="matrix", test="^TestCoversMatrix$", kind="plain", quick=dict(n=1, procs=1, timeout=300), thorough=dict(n=1, procs=1, timeout=1200)),
          dict(name="deep", test="^TestCoversDeep$", quick=dict(n=40000, procs=2, timeout=300), thorough=dict(n=5000000, procs=6, timeout=3000)),
          dict(name="authorize", test="^TestAuthorize$", quick=dict(n=15000, procs=3, timeout=300), thorough=dict(n=4000000, procs=12, timeout=3000)),
          dict(name="concurrent", test="^TestAuthorizeConcurrent$", kind="plain", quick=dict(n=6, procs=1, timeout=300), thorough=dict(n=300, procs=3, timeout=1800)),
          dict(name="contract-refresh", test="^TestContractRefresh$", kind="plain", quick=dict(n=3, procs=1, timeout=300), thorough=dict(n=48, procs=2, timeout=1800)),
          dict(name="entry-points", test="^TestEntryPoints$", kind="plain", quick=dict(n=1, procs=1, timeout=300), thorough=dict(n=1, procs=1, timeout=600))],
)

CHECKS["C11"] = dict(
    level="exploration",
    technique="property testing (rapid) of key generation and private-link extension through the real emitter/keygen/ request and the /keygen HTTP form; the "
              "returned key is decrypted and compared field by field with an independent recomputation, then probed through Service.Authorize",
    level_text="Generated requests over parent kinds (master, expired/foreign-cipher/unknown-contract/bad-signature master, ordinary, extendable x every mask, "
               "expired extendable, garbage), permission strings over rwslpex + junk, ttl 0/+-small/+-1e7/int32 extremes, valid and malformed channels (no "
               "trailing slash, >23 levels, wildcards, #/): an issued key must have no master bit, permissions within the request (and the parent, extend "
               "cleared, for extension), the parent's contract/signature/master, target bytes equal to a recomputation for exactly the requested channel "
               "(<channel><connection id>/ for extension, #/ moved behind the id), expiry = request time + ttl (+-2 s) or none, and must authorize the intended "
               "channel but neither sibling nor parent; non-master / expired / foreign parents must be refused; every mask with the extend bit is refused for "
               "SUBSCRIBE and PUBLISH. A history leg mints, extends (from several connections), uses, probes and damages keys in any order on one broker and compares every step with a per-key model (a key's rights never change through requests); a concurrency leg issues keys from 8 goroutines at once, mixed with refused requests. Extendable keys are also tried through link shortcuts (auto-subscribe of the link request, publish through the shortcut); request documents may omit type / ttl and type strings may carry non-ASCII look-alikes of the permission letters.",
    level_note="Trusted: hash.OfString (murmur) for the target hash, the 15-line bit-path recomputation, keys built field by field. A requested expiry before the key "
               "format's epoch (2010-01-01) is not representable: such a key must already be expired with the earliest representable expiry.",
    rule="rapid-generated requests; non-trivial = a key was issued from a master, or the request asks for permissions the parent lacks, or a refusal caused by a "
         "parent defect with a well-formed channel; distinct = distinct case value.",
    legs=[dict(name="keygen", test="^(TestProbeTTLUnderflow|TestKeygen)$", quick=dict(n=15000, procs=3, timeout=300), thorough=dict(n=4000000, procs=12, timeout=3000)),
          dict(name="history", test="^TestKeyHistory$", quick=dict(n=600, procs=3, timeout=300), thorough=dict(n=60000, procs=12, timeout=3000)),
          dict(name="concurrent", test="^TestKeygenConcurrent$", kind="plain", quick=dict(n=6, procs=2, timeout=300), thorough=dict(n=240, procs=4, timeout=1800)),
          dict(name="extendable", test="^TestExtendableUnusable$", kind="plain", quick=dict(n=1, procs=1, timeout=300), thorough=dict(n=1, procs=1, timeout=300))],
)

CHECKS["C12"] = dict(
    level="exploration",
    technique="metamorphic property testing (rapid): generated modifications of issued key strings; oracle: the set of operations the modified string is good for "
              "(Service.Authorize over a probe set + key minting) is contained in what the original was good for",
    level_text="Issued keys over (license version 1-3, permission mask, target shape, expiry none/future/past, salt) x modifications: 1-3 bit flips of the 24 raw "
               "bytes (all 192 single flips enumerated for 4 keys per version), XOR masks on 1-4 bytes, base64 character substitutions, bytes outside the alphabet, "
               "3-byte and 8-byte block swaps/duplications, truncation/extension, 8-byte block splices from a second issued key. granted(k') must be a subset of "
               "granted(k) (of the union for splices) on 12 channels x 6 permissions + minting. A concurrency leg presents modified keys while other clients are authorized with powerful keys at the same moment: the modified key must grant exactly what it grants when presented alone. In a fifth of the cases the issued key is banned before the modified string is presented (a respelling that still works is then more powerful than the original); the salts of 1 200 keys issued in a row must be (nearly) all distinct.",
    level_note="Trusted: keys built field by field, the probe set. A 2^-32 forgery cannot be found by sampling; this check finds structural malleability only. "
               "Listed findings: v2/v3 ciphers are unauthenticated stream ciphers (bit flips beyond the salt bytes change permissions/target/expiry at will).",
    rule="rapid-generated (key, modification) pairs + enumerated single-bit flips; non-trivial = the modified string is still 32 valid characters; distinct = distinct case value.",
    legs=[dict(name="tamper", test="^TestTamper$", quick=dict(n=15000, procs=3, timeout=300), thorough=dict(n=4000000, procs=12, timeout=3000)),
          dict(name="issued-splice", test="^TestSpliceIssuedKeys$", kind="plain", quick=dict(n=200, procs=1, timeout=300), thorough=dict(n=5000, procs=2, timeout=900)),
          dict(name="concurrent", test="^TestTamperWhileOthersAuthorize$", kind="plain", quick=dict(n=6, procs=2, timeout=300), thorough=dict(n=240, procs=4, timeout=1800)),
          dict(name="bitflips", test="^TestSingleBitFlips$", kind="plain", quick=dict(n=1, procs=1, timeout=300), thorough=dict(n=1, procs=1, timeout=300))],
)

CHECKS["C19"] = dict(
    level="exploration",
    technique="round-trip / ordering / partition-law property testing (rapid) of message, frame and id encoding and Frame.Split; randomized concurrent stress of "
              "Peer forwarding against a recording transport (exactly once, per-sender order)",
    level_text="(a) messages (id 0..112 B, channel 0..300 B, payload 0..64 KiB at varint boundaries, ttl 0..2^32-1) and frames of 0..50 messages survive "
               "Encode/Decode unchanged (nil = empty); (b) NewID gives back ssid (2..24 words incl. wildcard constants), contract and second-resolution time; ids "
               "created later sort bytewise before earlier ones within and across seconds; 8 goroutines x 10^4 ids are pairwise distinct; (c) Frame.Split for all "
               "bounds: head++tail = frame, head below the bound and maximal; iterated as the peer does it re-assembles the frame; (d) 1-8 goroutines hand "
               "200-3000 numbered messages each to a Peer whose 5 ms ticker is the only flusher: the transport receives each exactly once, per-sender order kept, "
               "nothing once the peer is inactive. Decoded frames / messages and encoded bytes are re-checked after other data went through the codec (results may not alias pooled buffers), and a concurrent leg runs the codec from 8 goroutines. The split leg includes near-64-KiB messages against bounds from 64 KiB to the real 10 MiB peer bound.",
    level_note="Trusted: the recording mesh.Gossip stub, VerifNewPeer (= newPeer on a stub swarm). Leg (d) samples Go-scheduler interleavings; no shrinking. Single "
               "messages at or above the split bound cannot occur in the broker (64 KiB packet cap vs 10 MiB bound) and are excluded (counted).",
    rule="rapid cases + stress rounds; non-trivial = frame of >=2 messages or a large payload/ttl, >=2 time steps, a frame that splits into >=2 chunks, a peer round with "
         ">=2 concurrent senders; distinct = distinct case value.",
    legs=[dict(name="codec", test="^TestCodec$", quick=dict(n=6000, procs=2, timeout=300), thorough=dict(n=1500000, procs=8, timeout=3000)),
          dict(name="codec-concurrent", test="^TestCodecConcurrent$", kind="plain", quick=dict(n=10, procs=1, timeout=300), thorough=dict(n=80, procs=2, timeout=1200)),
          dict(name="ids", test="^TestIDs$", quick=dict(n=10000, procs=1, timeout=300), thorough=dict(n=3000000, procs=4, timeout=3000)),
          dict(name="ids-concurrent", test="^TestIDsDistinctConcurrent$", kind="plain", quick=dict(n=3, procs=1, timeout=300), thorough=dict(n=60, procs=2, timeout=1200)),
          dict(name="split", test="^TestSplit$", quick=dict(n=20000, procs=1, timeout=300), thorough=dict(n=4000000, procs=4, timeout=3000)),
          dict(name="peer", test="^TestPeerForwarding$", kind="plain", quick=dict(n=12, procs=2, timeout=300), thorough=dict(n=600, procs=6, timeout=2400))],
)

CHECKS["C07"] = dict(
    level="exploration",
    technique="end-to-end stateful property testing (rapid): generated publish / last-will / subscribe / re-subscribe histories against a broker with the in-memory "
              "store; oracle: a list model of what must be stored and which packets must precede each SUBACK",
    level_text="Histories of <=25 operations on 2-3 clients: publishes with/without retain flag, ttl option absent/0/5/3600/86400/2^32-2/negative/garbage, keys "
               "with/without store permission, nested channels; last wills (retain or not, with/without store permission, ended by close or DISCONNECT); "
               "subscribes and re-subscribes with keys with/without load permission, last absent/0/1/2/3/5/10^6/2^40, windows around now / far past / far future / "
               "one-sided / out-of-range. Checked: the packets read before each SUBACK are exactly the last N stored matching messages inside the window (none "
               "without load permission), nothing but live publishes afterwards, live fan-out unchanged, and at the end the store holds exactly the model "
               "(once each, publisher's channel and contract, requested ttl, retain = configured retention). A concurrency leg has several clients publishing stored messages while further goroutines write to the same store; afterwards every channel's history holds exactly its publisher's messages, once each. Publishes with keys lacking write permission must be refused and leave nothing behind.",
    level_note="Trusted: paho client codec, barriers, reference matcher, a per-case namespace level so one broker/store serves many cases. Messages of one history "
               "share a wall-clock second, so replay is compared as a multiset. Excluded: will topics with a ttl option and ttl >= 2^32-1 (statement ambiguous / wire type).",
    rule="rapid-generated histories; non-trivial = a subscribe whose expected replay is non-empty and a strict subset of the stored messages; distinct = distinct case value.",
    legs=[dict(name="retain-replay", test="^TestRetainReplay$", quick=dict(n=700, procs=4, timeout=300), thorough=dict(n=40000, procs=14, batch=2000, timeout=2400)),
          dict(name="concurrent-publishers", test="^TestConcurrentPublishers$", kind="plain", quick=dict(n=2, procs=1, timeout=300), thorough=dict(n=60, procs=3, timeout=1800)),
          dict(name="large-replay", test="^TestLargeReplay$", kind="plain", quick=dict(n=1, procs=1, timeout=300), thorough=dict(n=1, procs=1, timeout=300))],
)

CHECKS["C08"] = dict(
    level="fault_enumeration",
    technique="fault-point enumeration over generated sessions (rapid): every byte offset of the serialised victim session is a cut point, x the ways a connection "
              "can end; oracle: exact end state (subscription index dump, connection counter), will delivery count, presence notifications, bystander traffic",
    level_text="For each generated victim session (CONNECT with no / valid / write-less / malformed / extendable-key will, 0-6 requests out of SUBSCRIBE with "
               "colliding filter families, UNSUBSCRIBE, QoS-1 PUBLISH, presence-change request, link with auto-subscribe) the connection is ended after EVERY "
               "byte offset by closing the socket, and at every packet boundary also by DISCONNECT, a packet whose decoding panics, reserved packet types "
               "and an oversize length. After the close barrier: the index dump equals the bystanders' entries exactly, the connection counter is back, the will "
               "watcher got the will exactly once iff CONNECT was complete and the will key may publish, the presence watcher got one unsubscribe per "
               "subscription still held (and the subscribe/unsubscribe notifications of the processed requests in order, with the username), bystanders got "
               "exactly the victim's processed publishes, and a later publish reaches the bystander once. A second enumeration leg injects write faults: the victim's whole request stream is readable but the broker's k-th write to it fails (from then on, or only once), for every k of the fault-free run; sessions contain blocks of filters whose ssids share the per-connection counter hash (two-, three- and four-way). Victim sessions also hold $share filters and duplicate subscribes inside the colliding-filter blocks. A session may send CONNECT again on the same connection (same or another will): the will of the most recent CONNECT is the one that must fire exactly once (if the most recent one carries none while an earlier did, none or that one are accepted).",
    level_note="Trusted: paho codec, the close signal of the wrapped pipe (Conn.Close ends with socket.Close), the presence-queue sentinel barrier, waiting for the "
               "acknowledgement of every complete packet before ending (so the processed prefix is known). Process kill / internal panics outside the decoder "
               "are not injected.",
    rule="each (session, cut offset, ending) execution is one evaluation; non-trivial = cut after the CONNECT packet plus at least one further byte of a session "
         "that has requests (acknowledged state exists); distinct = distinct (session, cut, ending).",
    legs=[dict(name="cut-points", test="^TestCutPoints$", quick=dict(n=40, procs=4, timeout=600), thorough=dict(n=3000, procs=14, timeout=3000)),
          dict(name="write-faults", test="^TestWriteFaults$", quick=dict(n=120, procs=4, timeout=600), thorough=dict(n=12000, procs=14, timeout=3000)),
          dict(name="burst", test="^TestBurstWhileWatcherSlow$", kind="plain", quick=dict(n=2, procs=1, timeout=300), thorough=dict(n=20, procs=1, timeout=600))],
)

CHECKS["C18"] = dict(
    level="exploration",
    technique="end-to-end stateful property testing (rapid): generated subscribe/unsubscribe/link/disconnect/status/watch histories of named connections; oracle: "
              "reference matcher for status, expected notification sequence per watcher; presence-queue sentinel barrier",
    level_text="Histories of <=30 operations by 2-4 connections with usernames on a/, a/b/, a/b/c/, x/: subscribe, unsubscribe, link auto-subscribe, going away "
               "(close or DISCONNECT), presence status requests for exact and parent channels, and a watcher that asks for / cancels presence changes on a/, "
               "a/b/, x/. After every operation both a permanent watcher and the toggling watcher must have received exactly the expected notifications "
               "(one subscribe per new subscription on or below a watched channel, one unsubscribe when it ends, per-connection order, usernames, none after "
               "cancel), and every status response must list exactly the connections the reference matcher says would receive a publish, with usernames. "
               "A second leg saturates the 100-slot presence queue behind a non-reading watcher and checks that order is preserved. The channel alphabet contains two- and three-way groups of channels whose ssids share the per-connection counter hash. Status requests are also made over HTTP (POST /presence), with the channel given without its trailing slash, and with a key that lacks the presence permission (refused). A further leg cancels a watch while notifications for it wait behind a sender stuck on another watcher: nothing may reach the cancelled watcher afterwards; channel names include the reserved words presence/ and emitter/.",
    level_note="Trusted: paho codec, ids learned from emitter/me, the sentinel barrier through the presence queue (single FIFO goroutine) observed by a permanent "
               "watcher - which makes 'none after cancel' conclusive. Cluster survey answers no peers.",
    rule="rapid-generated histories; non-trivial = >=2 transitions, a connection going away and the toggling watcher notified at least once; distinct = distinct case value.",
    legs=[dict(name="presence", test="^TestPresence$", quick=dict(n=300, procs=4, timeout=400), thorough=dict(n=30000, procs=14, timeout=3000)),
          dict(name="backlog", test="^TestOrderUnderBacklog$", kind="plain", quick=dict(n=4, procs=1, timeout=300), thorough=dict(n=20, procs=1, timeout=900)),
          dict(name="cancel-backlog", test="^TestCancelBehindBacklog$", kind="plain", quick=dict(n=3, procs=1, timeout=300), thorough=dict(n=60, procs=2, timeout=900))],
)

CHECKS["C14"] = dict(
    level="exploration",
    technique="stateful property testing (rapid) with restart fault points: generated ban / unban / use / gossip-delivery / restart histories over two real brokers "
              "sharing a captured gossip link; oracle: per-broker, per-key boolean model with last-writer-wins by acknowledgement order",
    level_text="Histories of <=30 operations on two brokers and two keys: keyban requests (ban/unban with the master key) at either broker, uses of the key "
               "(publish or subscribe) at either broker interleaved everywhere, delivery of everything one broker has broadcast to the other (the other may or "
               "may not have looked the key up before), and restarts of a broker on its state directory after any prefix. After an acknowledged ban every use on "
               "that broker is refused, after an acknowledged unban accepted, a restart preserves the state, the other broker follows once the gossip is merged. A concurrency leg toggles the ban (requests and merged gossip) while six goroutines keep presenting the key: the next use after each acknowledgement must see the new status. Restarts may find the ban file with a damaged tail (a torn record, or bytes that are no record): the broker may refuse to start (the file is then repaired and it starts again) or start with every acknowledged ban in force; the broker that came back often merges the other broker's broadcasts before anything else.",
    level_note="Trusted: paho codec, a capturing mesh.Gossip stub (payload bytes taken at broadcast time, merged through the real OnGossipBroadcast), the real "
               "wall clock as the LWW clock (operations are far more than a nanosecond apart). Restart = clean Close + NewService in the main leg; the 'kill' leg runs the broker in a child process and SIGKILLs it after an "
               "acknowledgement (process death only, no power-loss model).",
    rule="rapid-generated histories; non-trivial = a use of a key that has been toggled at least twice, or a restart after a toggle; distinct = distinct case value.",
    legs=[dict(name="ban", test="^TestBan$", quick=dict(n=200, procs=4, batch=30, timeout=400), thorough=dict(n=12000, procs=14, batch=60, timeout=1200)),
          dict(name="in-use", test="^TestBanWhileKeyInUse$", kind="plain", quick=dict(n=2, procs=2, timeout=400), thorough=dict(n=40, procs=4, batch=10, timeout=1800)),
          dict(name="kill", test="^TestBanSurvivesKill$", quick=dict(n=12, procs=4, timeout=400), thorough=dict(n=600, procs=10, timeout=2400))],
)

CHECKS["C09"] = dict(
    level="exploration",
    technique="structure-aware fuzzing by property testing (rapid) against a broker in a re-executed child process under an address-space ceiling (death / hang / "
              "allocation / canary oracles), plus native go fuzzing of the cluster-port decoders in the thorough tier",
    level_text="(1) client port: streams of valid request packets with extreme parameters (last/ttl/from/until/JSON numbers at 32/64-bit boundaries, 40 KiB "
               "channels, thousands of topics, 64 KiB payloads, junk JSON, client-sent CONNACK/SUBACK) and mutations (bit flips, truncation at any offset, "
               "inflated length bytes, continuation-byte runs, reserved types, declarations above the message size); (2) cluster port: hand-encoded state "
               "payloads, frames, survey requests and messages handed to OnGossip / OnGossipBroadcast / OnGossipUnicast / OnSurvey / DecodeMessage, benign "
               "(truthful lengths, minimum sizes) and hostile (short keys/values/ids, lying length prefixes, truncation, huge snappy claims, garbage). Oracle per "
               "input: the child neither exits nor hangs, the attacked connection's goroutine terminates when the client goes away, a canary client's subscribe/publish/"
               "echo/unsubscribe loop still works, TotalAlloc delta <= 4 KiB per input byte + 16 MiB, oversize declarations are refused. A further leg lets 2-8 well-formed clients (plain, wildcard and $share subscribers) publish at the same moment in the child broker: it must survive and keep serving. Concurrent-clients cases may include a payload of 65520-65532 bytes published through a two-character shortcut (fits coming in, not going out): nobody can be sent it, and every client must still be served.",
    level_note="Trusted: the child-worker protocol (unacknowledged input = culprit), RLIMIT_AS 3 GB making out-of-memory observable, hand-rolled encoders of the "
               "kelindar/binary + snappy wire formats. Aborts on the cluster port are matched against the listed findings by the innermost emitter frame; an "
               "abort at an unlisted site, any abort/hang from the client port, or a hostile input that breaks the canary is a violation. Slow-consumer "
               "head-of-line blocking is not hostile input and out of scope.",
    rule="rapid-generated inputs; non-trivial = client stream longer than 2 bytes / cluster payload that the entry point decodes without error; distinct = distinct input bytes.",
    legs=[dict(name="client", test="^TestClientPort$", quick=dict(n=1500, procs=3, timeout=600), thorough=dict(n=150000, procs=8, timeout=3000)),
          dict(name="concurrent-clients", test="^TestConcurrentClients$", quick=dict(n=60, procs=2, timeout=600), thorough=dict(n=6000, procs=6, timeout=3000)),
          dict(name="cluster-benign", test="^TestClusterBenign$", quick=dict(n=1500, procs=2, timeout=600), thorough=dict(n=150000, procs=4, timeout=3000)),
          dict(name="cluster-hostile", test="^(TestProbes|TestClusterHostile)$", quick=dict(n=300, procs=3, timeout=600), thorough=dict(n=15000, procs=6, timeout=3000)),
          dict(name="fuzz-seeds", test="^(FuzzGossipState|FuzzFrame)$", kind="plain", quick=dict(n=1, procs=1, timeout=300), thorough=dict(n=1, procs=1, timeout=300)),
          dict(name="fuzz-state", kind="fuzz", fuzz="FuzzGossipState", thorough=dict(fuzztime=300, workers=6)),
          dict(name="fuzz-frame", kind="fuzz", fuzz="FuzzFrame", thorough=dict(fuzztime=300, workers=6))],
)

CHECKS["C10"] = dict(
    level="exploration",
    technique="randomised concurrent stress with a strong stream oracle: numbered, self-describing payloads from concurrent publishers; every subscriber's byte stream "
              "is parsed end to end by paho's decoder and checked for framing, payload integrity, and exact per-publisher sequence",
    level_text="Rounds of 2-6 concurrent publishers x 300-1200 messages (QoS 0/1, sizes 8 B..40 KiB) to 1-3 stable subscribers plus 0-2 churning subscribers, "
               "behind the real write-queueing listener connection at flush rates 1 / 60 / 1000 (direct, queued, flush-on-write and timer-flush paths) or a real "
               "gorilla WebSocket through the broker's HTTP handler, with fast and slow (sipping, pausing) readers. Stable subscribers must receive exactly "
               "0..n-1 per publisher in order; churning subscribers only increasing sequences; every packet well-formed with an intact payload. Half of the rounds add members of one share group (each message to exactly one member; together they hold every message once); transports include the broker's real front door on a loopback port (multiplexing listener with HTTP matcher and catch-all, write-queueing connection) for MQTT over TCP and over WebSocket.",
    level_note="Weakest claim of the set: interleavings are whatever the Go scheduler yields (sampled, not enumerated, not shrinkable). Trusted: paho decoder, net.Pipe / "
               "loopback sockets. A stable subscriber not completing within 60 s of the publishers finishing is reported as loss.",
    rule="one round = one evaluation; non-trivial = >=2 concurrent publishers; distinct = distinct round parameters (seed included).",
    legs=[dict(name="stress", test="^TestConcurrentDelivery$", kind="plain", quick=dict(n=24, procs=4, timeout=600), thorough=dict(n=1200, procs=12, timeout=3000))],
)

CHECKS["C15"] = dict(
    level="fault_enumeration",
    technique="crash-point injection over generated store schedules (rapid): a re-executed child stores messages from 1-64 goroutines on the disk provider and is "
              "SIGKILLed after a drawn delay / acknowledgement count, kills itself right after a burst, or closes cleanly; a fresh process reopens and pages "
              "through history; oracle: acknowledged => returned identical, returned => submitted",
    level_text="Per generated case 2-5 consecutive lives on one directory, each ending by SIGKILL after 0-150 ms or after 1-300 acknowledgements, by a self-kill "
               "the instant the last Store of a concurrent burst returned, or by a clean Close. After every life a fresh process opens the directory: the store "
               "must open, every message whose Store had returned must come back with identical id, channel, payload and ttl, no message twice while paging, "
               "and nothing that was never submitted (submitted-but-unacknowledged may go either way). The fresh reader process may store a message before it reads (publish before the first history request after a restart); a life may end by a clean shutdown while the storers keep going (refused stores are not acknowledged, acknowledged ones must be durable). Lives may follow each other unread (runs of 3-5 lives ending in a kill before anybody reads; what was acknowledged is checked after a later life). A torn-log-delete leg constructs the directory a kill leaves while the store deletes the log of a flushed memtable (zero-length .mem file, any position): the store must open and return everything.",
    level_note="Process death only (SIGKILL): power loss / fsync behaviour (SyncWrites=false) is not observable in this sandbox and not claimed. Trusted: the "
               "TRY/ACK line protocol over a pipe (an ACK line is written only after Store returned).",
    rule="one generated case = 2-5 kill/restart cycles; non-trivial = a life ended by a kill with >=1 acknowledged store and stores in flight (or a self-kill right after "
         "a burst); distinct = distinct case value.",
    legs=[dict(name="kill-points", test="^TestKillPoints$", quick=dict(n=16, procs=4, timeout=600), thorough=dict(n=800, procs=12, timeout=3000)),
          dict(name="torn-log-delete", test="^TestTornLogDelete$", quick=dict(n=1, procs=1, timeout=300), thorough=dict(n=1, procs=1, timeout=600))],
)

CHECKS["C05"] = dict(
    level="exploration",
    technique="stateful property testing (rapid) of 2-4 real brokers over a simulated gossip transport whose schedule (pick / deliver / periodic full state / peer "
              "offline / reconnect) is part of the generated history; oracle: routing tables and deliveries against a model of live local subscribers",
    level_text="Histories of <=40 client operations (connect at any broker, subscribe, unsubscribe, disconnect on a/, a/b/, c/) interleaved with transport "
               "operations, full-mesh and line topologies, in five schedule classes: A (everything delivered before the next client operation), A' (arbitrary "
               "pick/deliver delays, per-link FIFO, no two payloads in one sender bucket), B (unrestricted: payloads coalesce in the sender), C (A' + periodic "
               "full-state gossip racing the operations), D (A' + peers garbage-collected and reconnected). At every check gossip is driven to quiescence and "
               "for every broker and channel the remote subscribers in its index must equal the brokers with a live matching local subscriber; a QoS-1 probe "
               "publish must reach every matching client cluster-wide once, with exactly one forwarded frame per other broker that has a subscriber and none to "
               "the others. Classes A and A' are asserted strictly, as are 'a full-state exchange with nothing in flight changes nothing' and 'no route to a "
               "garbage-collected peer is left'; other failures in B, C, D must match a listed finding. Class J adds a broker that joins late (first full-state exchange carries several subscriptions and tombstones at once); a first-contact leg delivers the first two updates about an unknown broker over two links concurrently. Class L breaks a link between two brokers that stay reachable through the others (no garbage collection; what was queued on the link is lost) and requires routing to be right after one anti-entropy round; generators include a 1 100-character channel, immediate unsubscribe+subscribe of a held channel and bursts of one client on one channel. Class P: a partition nobody has noticed (two brokers, or three in a line; the only link between two of them breaks, nobody is garbage collected): unicasts to the far side fail, subscriptions come and go on both sides, the link returns with a full-state exchange - afterwards routes are exact again (what a broker believes about a broker it cannot reach is not judged meanwhile).",
    level_note="Trusted: the transcription of mesh's gossipSender and gossipChannel relay logic (vkit/gsender.go, vkit/simnet.go, ~250 lines; full-mesh and line "
               "topologies), which replaces the real mesh router, TCP and topology gossip; crdt.Now is a harness counter. 'Once quiesced' is checked, not "
               "'eventually quiesces'. Outside A/A' the implementation is known to violate the property (listed findings), so there the check separates "
               "'fails as listed' from 'fails differently'.",
    rule="rapid-generated histories per class; non-trivial = a check reached with >=2 brokers holding subscribers on one channel after >=1 unsubscribe/disconnect; "
         "distinct = distinct case value.",
    legs=[dict(name="class-A", test="^TestClassA$", quick=dict(n=60, procs=3, batch=20, timeout=600), thorough=dict(n=4000, procs=6, batch=50, timeout=3000)),
          dict(name="class-A-prime", test="^TestClassAPrime$", quick=dict(n=60, procs=3, batch=20, timeout=600), thorough=dict(n=4000, procs=6, batch=50, timeout=3000)),
          dict(name="class-B", test="^(TestProbes|TestClassB)$", quick=dict(n=20, procs=1, batch=20, timeout=600), thorough=dict(n=800, procs=2, batch=50, timeout=3000)),
          dict(name="first-contact", test="^TestFirstContactConcurrent$", kind="plain", quick=dict(n=3000, procs=1, timeout=600), thorough=dict(n=48000, procs=8, timeout=3000)),
          dict(name="class-J", test="^TestClassJ$", quick=dict(n=60, procs=3, batch=20, timeout=600), thorough=dict(n=3000, procs=6, batch=50, timeout=3000)),
          dict(name="class-L", test="^TestClassL$", quick=dict(n=40, procs=2, batch=20, timeout=600), thorough=dict(n=2000, procs=4, batch=50, timeout=3000)),
          dict(name="class-P", test="^TestClassP$", quick=dict(n=120, procs=4, batch=30, timeout=600), thorough=dict(n=4000, procs=4, batch=50, timeout=3000)),
          dict(name="class-C", test="^TestClassC$", quick=dict(n=30, procs=2, batch=15, timeout=600), thorough=dict(n=1500, procs=3, batch=50, timeout=3000)),
          dict(name="class-D", test="^TestClassD$", quick=dict(n=30, procs=2, batch=15, timeout=600), thorough=dict(n=1500, procs=3, batch=50, timeout=3000))],
)

for _k in CHECKS:
    NOT_APPLICABLE.pop(_k, None)
