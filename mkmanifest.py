#!/usr/bin/env python3
"""Regenerates MANIFEST.json from checks_conf.py (so the manifest always matches what the driver runs)."""
import json, os, sys
ROOT = os.path.dirname(os.path.abspath(__file__))
sys.path.insert(0, ROOT)
from checks_conf import CHECKS, NOT_APPLICABLE

checks = []
for pid in sorted(CHECKS):
    c = CHECKS[pid]
    checks.append(dict(
        property_id=pid,
        quick_cmd="./check %s --tier quick" % pid,
        thorough_cmd="./check %s --tier thorough" % pid,
        evidence_file="/verif/evidence/%s.json" % pid,
        replay_cmd_template="./check %s --replay {path}" % pid,
        engine="pbt",
        level_claimed=dict(category=c["level"], text=c["level_text"], design_ref=c.get("design_ref", "DESIGN.md §4 " + pid)),
        level_note=c["level_note"],
        technique=c["technique"],
    ))
m = dict(
    version=1,
    setup_cmd="./setup.sh",
    hooks=dict(
        guard="verif (Go build tag)",
        enable="go test -tags verif -overlay <generated> -modfile <generated>: the hook files live in /verif/hooks/<pkg>/zz_verif.go "
               "(//go:build verif, accessor methods only) and are overlaid into the emitter packages at build time; nothing is committed into /repo for hooks",
        baseline_off_cmd="cd /repo && GOFLAGS=-mod=mod go test -vet=off -count=1 -timeout 25m ./...",
        source_commits=[],
        add_only=True,
    ),
    engines=[dict(name="pbt", path="/verif/check", serves_properties=sorted(CHECKS),
                  kind_free_text="property-based testing (pgregory.net/rapid v1.3.0: generated case values, stateful histories, shrinking) "
                                 "+ Go native coverage-guided fuzzing in the thorough tier; python driver shards/batches processes and merges measured statistics")],
    checks=checks,
    notes="Every check rebuilds its harness from /repo's working tree through go's -overlay/-modfile (see DESIGN.md §2.2). "
          "KNOWN_FINDINGS.txt lists recorded genuine defects (finding:) and repaired ones (fixed:).",
    not_applicable=[dict(property_id=k, reason=v) for k, v in sorted(NOT_APPLICABLE.items())],
)
json.dump(m, open(os.path.join(ROOT, "MANIFEST.json"), "w"), indent=1)
print("MANIFEST.json: %d checks, %d not applicable" % (len(checks), len(NOT_APPLICABLE)))
